"""An independent (Python) IPFIX message builder used by the generators: RFC 7011 wire format."""
import struct

from gen import common as G


def u16(n):
    return struct.pack(">H", n & 0xffff)


def u32(n):
    return struct.pack(">I", n & 0xffffffff)


def message(dom, set_id, body, seq=0, export_time=0, version=10, length=None, set_len=None):
    total = 16 + 4 + len(body)
    if length is None:
        length = total
    if set_len is None:
        set_len = 4 + len(body)
    return u16(version) + u16(length) + u32(export_time) + u32(seq) + u32(dom) + u16(set_id) + u16(set_len) + body


def field_spec(ie, length=None):
    ln = ie.len if length is None else length
    if ie.ent != 0:
        return u16(ie.id | 0x8000) + u16(ln) + u32(ie.ent)
    return u16(ie.id) + u16(ln)


def template_body(tid, ies, count=None):
    return u16(tid) + u16(len(ies) if count is None else count) + b"".join(field_spec(ie) for ie in ies)


def var_prefix(n):
    return bytes([n]) if n < 255 else b"\xff" + u16(n)


def enc_value(ie, tok, long_prefix=False):
    """wire bytes of a well-typed value token for element ie (template length semantics); long_prefix: a variable-length
    value is sent with the three-octet length form (255, length as 16 bits) whatever its length - RFC 7011 section 7
    allows that form for short values too, only this library's own encoder never produces it"""
    kind, rest = tok[0], tok[1:]
    if ie.len == 65535:
        b = bytes.fromhex(rest) if rest != "-" else b""
        return (b"\xff" + u16(len(b)) if long_prefix else var_prefix(len(b))) + b
    if kind == "n":
        return int(rest).to_bytes(G.WIDTH[ie.ty], "big")
    if kind in "tf":
        return b"\x01" if kind == "t" else b"\x02"
    b = bytes.fromhex(rest) if rest != "-" else b""
    if ie.ty == 18 and len(b) == 16:
        b = b[12:]
    if ie.ty == 19 and len(b) == 4:
        b = b"\0" * 10 + b"\xff\xff" + b
    return b


def record_bytes(ies, toks, rng=None, p_long=0.0):
    return b"".join(enc_value(ie, t, rng is not None and rng.random() < p_long) for ie, t in zip(ies, toks))
