"""C11 - TCP framing independent of segmentation: correspondence generator and runner.

Ops (engine `fr`, see harness/cmd/harness-framer/main.go and lean/Driver/MainFramer.lean):
  fr new <mode> / fr open <conn> / fr seg <conn> <hex> / fr state <conn> / fr eof <conn>
One case = one fresh collecting process. The real reader (handleTCPClient on one end of a net.Pipe)
and the Lean model (Framer.feedConn) see the same segments; `chk fr ...` lines evaluate Spec.C11
(frames of the WHOLE stream, decoded in order until the first failure) on what the implementation
reported.
"""
import itertools
import os
import random
import shutil

import check
from check import Case, exec_cases, run_ops
from gen import common as G
from gen import ipfix as W


class SPEC:
    driver_target = "driver_framer"
    rule = ("engine fr: the real handleTCPClient reader on a net.Pipe (one `fr seg` = one Write = one segment, exact and "
            "deterministic). (a) short streams of 2-4 messages (a template, data messages for it; optionally an invalid message "
            "inserted at any position: bad version, truncated variable-length record, unknown template id, undecodable template, "
            "length field 0..19; or a length field that disagrees with the message size) with EVERY single cut point, and for a "
            "subset of the streams EVERY pair of cut points, enumerated exhaustively; (b) long streams (8-40 messages, up to "
            "several KB each, some larger than the 4096-byte bufio buffer, a few of 32..64 KB) with random multi-cuts: 1-byte dribble, cuts at message "
            "boundaries +-1, few big coalesced segments, whole stream in one segment, end-of-stream in the middle of a message; "
            "(c) two or three interleaved connections of one collecting process (own or shared observation domain), one of them "
            "carrying an invalid message. The collector is created with TemplateTTL = 1 s (legal on a TCP collector, without effect there) "
            "and the harness's clock; `fr tick` between segments lets a day pass and fires whatever was scheduled on that clock - "
            "nothing may be, templates of a TCP session do not age. Open/closed state is observed after the segments. Non-trivial = at least one cut strictly "
            "inside a message; distinct by hash of the op list.")
    assumptions = [
        "TCP is a reliable byte stream: whatever the network and the timing do, the reader's Reads return some segmentation of the "
        "stream; net.Pipe realises each chosen segmentation exactly (a delay between two segments makes the reader block, which is "
        "the state every `fr seg` starts from; no delay = a coarser segmentation, also enumerated). A delay may be arbitrarily long: a "
        "read deadline the reader arms on its connection is therefore made to expire whenever the reader has to wait for the next "
        "segment (the harness's connection hands the reader one timeout per stream position; the unchanged reader arms none)",
        "bufio.Reader.Peek / io.ReadFull behave as documented (modelled, not verified; exercised through the real reader)",
        "a crash of decodePacket (panic in the reader goroutine) is property C03's subject; the model maps it to a decoding error",
    ]
    trusted = ["harness/cmd/harness-framer: quiescence = Write returned and (reader goroutine returned, or it has taken every byte "
               "and is blocked in a new Read); deliveries are received synchronously by the op that caused them"]


ROOT = check.ROOT
STATS = G.Counter()
MODES = ["strict", "keep", "drop"]


def build_harness():
    with check.Lock("harness"):
        hd = os.path.join(ROOT, "harness")
        shutil.copyfile(os.path.join(check.REPO, "go.sum"), os.path.join(hd, "go.sum"))
        ov = check.write_overlay()
        out = os.path.join(check.BIN, "harness-framer")
        r = check.run(["go", "build", "-tags", "verif", "-overlay", ov, "-o", out, "./cmd/harness-framer"],
                      cwd=hd, env=check.GOENV, timeout=1800)
        return r.returncode == 0, r.stderr, out


# ----------------------------------------------------------------------------------------
# streams

BAD_KINDS = ["badversion", "truncrec", "unknowntpl", "badtpl", "shortlen"]


class Stream:
    __slots__ = ("msgs", "mode", "label", "bad")

    def __init__(self, msgs, mode, label, bad):
        self.msgs, self.mode, self.label, self.bad = msgs, mode, label, bad

    def bytes(self):
        return b"".join(self.msgs)

    def bounds(self):
        out, n = set(), 0
        for m in self.msgs:
            out.add(n)
            n += len(m)
        out.add(n)
        return out


def small_ies(rng, need_string):
    bt = G.by_type()
    fixed = [bt[1][0], bt[2][0], bt[18][0], bt[3][0]]
    ies = [rng.choice(fixed) for _ in range(rng.randint(1, 2))]
    if need_string:
        ies.append(rng.choice(bt[13]))
    return ies


def big_ies(rng):
    sup = [ie for ie in G.registry_supported()]
    bt = G.by_type()
    ies = [rng.choice(sup) for _ in range(rng.randint(1, 6))]
    if rng.random() < 0.6:
        ies.append(rng.choice(bt[13]))
    return ies


def record(rng, ies, maxlen=None):
    """one data record; maxlen=None: short streams, variable-length values of at most 6 bytes"""
    toks = []
    for ie in ies:
        if ie.len == 65535:
            n = rng.randint(0, 6) if maxlen is None else G.rand_var_len(rng, False, maxlen)
            toks.append("x" + G.hexs(G.rand_bytes(rng, n)))
        else:
            toks.append(G.well_typed_value(rng, ie, big_ok=False))
    return W.record_bytes(ies, toks)


def bad_message(rng, kind, dom, tid, ies, seq):
    """an undecodable message (as the position it is inserted at sees it)"""
    if kind == "badversion":
        return W.message(dom, tid, record(rng, ies), seq=seq, version=rng.choice([9, 0, 11, 0x0a00, 0xffff]))
    if kind == "truncrec":
        # the last element is a string: announce more bytes than the set holds
        fixed = W.record_bytes(ies[:-1], [G.well_typed_value(rng, ie, big_ok=False) for ie in ies[:-1]])
        return W.message(dom, tid, fixed + bytes([rng.randint(8, 254)]) + G.rand_bytes(rng, rng.randint(0, 5)), seq=seq)
    if kind == "unknowntpl":
        return W.message(dom, tid + 1 if tid < 65535 else 999, record(rng, ies), seq=seq)
    if kind == "badtpl":
        body = W.template_body(tid, ies, count=len(ies) + rng.randint(1, 3))      # announces more fields than it carries
        return W.message(dom, 2, body, seq=seq)
    if kind == "shortlen":
        m = W.message(dom, tid, record(rng, ies), seq=seq)
        return m[:2] + W.u16(rng.randint(0, 19)) + m[4:]
    raise ValueError(kind)


def short_stream(rng, nvalid, bad=None, bad_pos=None, lenmis=False):
    """a template and nvalid-1 data messages; optionally an invalid message inserted at bad_pos"""
    mode = rng.choice(MODES)
    dom = rng.choice([1, 2, 77, 0xffffffff])
    tid = rng.choice([256, 257, 300, 65535])
    ies = small_ies(rng, bad == "truncrec")
    msgs = [W.message(dom, 2, W.template_body(tid, ies), seq=0, export_time=rng.getrandbits(32))]
    for k in range(nvalid - 1):
        body = b"".join(record(rng, ies) for _ in range(rng.randint(1, 2)))
        msgs.append(W.message(dom, tid, body, seq=k + 1))
    label = "valid"
    if bad is not None:
        msgs.insert(bad_pos, bad_message(rng, bad, dom, tid, ies, 99))
        label = "bad:%s@%d" % (bad, bad_pos)
    if lenmis:
        i = rng.randrange(len(msgs))
        m = msgs[i]
        new = max(20, len(m) + rng.choice([-3, -2, -1, 1, 2, 3, 5]))
        msgs[i] = m[:2] + W.u16(new) + m[4:]
        label = "lenmismatch"
    return Stream(msgs, mode, label, bad)


def long_stream(rng, dom=None, bad=False, shared=None, nmsgs=None):
    mode = shared["mode"] if shared else rng.choice(MODES)
    dom = dom if dom is not None else rng.choice([1, 2, 77, 0xffffffff])
    msgs = []
    tpls = {}
    n = nmsgs or rng.randint(8, 40)
    seq = 0
    bad_at = rng.randrange(1, n) if bad else -1
    bad_kind = rng.choice(BAD_KINDS) if bad else None
    for k in range(n):
        if k == bad_at and tpls:
            tid = rng.choice(list(tpls))
            ies = tpls[tid]
            kind = bad_kind
            if kind == "truncrec" and (not ies or ies[-1].ty != 13):
                kind = "badversion"
            msgs.append(bad_message(rng, kind, dom, tid, ies, seq))
            continue
        if not tpls or rng.random() < 0.15:
            tid = rng.choice([256, 257, 258, 300, 65535])
            ies = big_ies(rng)
            tpls[tid] = ies
            msgs.append(W.message(dom, 2, W.template_body(tid, ies), seq=seq, export_time=rng.getrandbits(32)))
        else:
            tid = rng.choice(list(tpls))
            ies = tpls[tid]
            r = rng.random()
            if r < 0.012:
                nrec, maxlen = rng.randint(200, 400), 400   # tens of KB, up to the 65535-octet limit: larger than any reader buffer
            elif r < 0.08:
                nrec, maxlen = rng.randint(20, 40), 300     # several KB: larger than the bufio buffer
            elif r < 0.3:
                nrec, maxlen = rng.randint(3, 12), 60
            else:
                nrec, maxlen = rng.randint(1, 3), 20
            body = b""
            for _ in range(nrec):
                rec = record(rng, ies, maxlen)
                if 20 + len(body) + len(rec) > 65000:
                    break
                body += rec
            msgs.append(W.message(dom, tid, body, seq=seq))
            seq += nrec
    STATS.add("long-stream:largest-message:" + ("<=512" if max(map(len, msgs)) <= 512 else "<=4096" if max(map(len, msgs)) <= 4096 else ">4096 (bufio buffer)" if max(map(len, msgs)) <= 32768 else ">32768"))
    STATS.add("long-stream:bytes:" + ("<4K" if sum(map(len, msgs)) < 4096 else "<32K" if sum(map(len, msgs)) < 32768 else ">=32K"))
    return Stream(msgs, mode, "long-bad:%s" % bad_kind if bad else "long", bad_kind)


def multicuts(rng, s, bounds):
    """a sorted list of cut positions (0 < c < len) in one of several styles"""
    L = len(s)
    style = rng.choice(["random", "random", "dribble", "near-bounds", "few", "whole", "aligned", "groups"])
    inner = [b for b in sorted(bounds) if 0 < b < L]
    if style == "random":
        k = rng.randint(1, max(1, min(L - 1, L // rng.choice([3, 10, 40, 200]) + 1)))
        cuts = rng.sample(range(1, L), min(k, L - 1))
    elif style == "dribble":
        start = rng.randrange(0, max(1, L - 1))
        cuts = list(range(max(1, start), min(L, start + rng.randint(20, 120))))
        cuts += rng.sample(range(1, L), min(5, L - 1))
    elif style == "near-bounds":
        cuts = []
        for b in inner:
            for d in (-1, 1, rng.choice([-3, -2, 2, 3, 4, 5, 19, 20, 21])):
                if rng.random() < 0.7 and 0 < b + d < L:
                    cuts.append(b + d)
    elif style == "few":
        cuts = rng.sample(range(1, L), min(rng.randint(1, 3), L - 1))
    elif style == "whole":
        cuts = []
    elif style == "aligned":
        cuts = list(inner)
    else:   # groups of whole messages per segment
        cuts = [b for b in inner if rng.random() < 0.4]
    cuts = sorted(set(c for c in cuts if 0 < c < L))
    if len(cuts) > 200:     # the cost per segment of the specification grows with the length of the stream
        cuts = sorted(rng.sample(cuts, 200))
    return style, cuts


def segments(s, cuts):
    pts = [0] + list(cuts) + [len(s)]
    return [s[a:b] for a, b in zip(pts, pts[1:]) if b > a]


def cut_case(stream, s, bounds, cuts, label, state_each=False, tick=False):
    ops = ["fr new " + stream.mode, "fr open 1"]
    for seg in segments(s, cuts):
        ops.append("fr seg 1 " + seg.hex())
        if tick:
            ops.append("fr tick")     # a long time passes before the next segment: templates of a TCP session do not age
        if state_each:
            ops.append("fr state 1")
    if not state_each:
        ops.append("fr state 1")
    nt = any(c not in bounds for c in cuts)
    return Case(ops, label, nt, True)


def exhaustive_cases(stream, double):
    s = stream.bytes()
    bounds = stream.bounds()
    L = len(s)
    out = [cut_case(stream, s, bounds, [], "cut0:" + stream.label)]
    for i in range(1, L):
        out.append(cut_case(stream, s, bounds, [i], "cut1:" + stream.label, tick=(i % 3 == 0)))
    if double:
        for i, j in itertools.combinations(range(1, L), 2):
            out.append(cut_case(stream, s, bounds, [i, j], "cut2:" + stream.label))
    return out


def short_stream_plan(rng, n):
    """n short streams: valid ones, an invalid message of every kind at every position, length mismatches"""
    plan = []
    combos = []
    for nvalid in (1, 2, 3):
        for kind in BAD_KINDS:
            for pos in range(0, nvalid + 1):
                combos.append((nvalid, kind, pos))
    rng.shuffle(combos)
    k = 0
    while len(plan) < n:
        r = len(plan) % 10
        if r < 2:
            plan.append(short_stream(rng, rng.randint(2, 4)))
        elif r < 3:
            plan.append(short_stream(rng, rng.randint(2, 3), lenmis=True))
        else:
            nvalid, kind, pos = combos[k % len(combos)]
            k += 1
            plan.append(short_stream(rng, nvalid, bad=kind, bad_pos=pos))
    return plan


def long_case(rng):
    st = long_stream(rng, bad=rng.random() < 0.5)
    s = st.bytes()
    bounds = st.bounds()
    style, cuts = multicuts(rng, s, bounds)
    c = cut_case(st, s, bounds, cuts, "%s:%s" % (st.label.split(":")[0], style), state_each=len(cuts) < 60,
                 tick=len(cuts) < 60 and rng.random() < 0.3)
    r = rng.random()
    if r < 0.25:
        # the peer goes away in the middle of the stream (usually in the middle of a message)
        k = rng.randrange(2, len(c.ops))
        c.ops = c.ops[:k] + ["fr eof 1", "fr state 1"]
        c.label += ":eof"
    elif r < 0.5:
        c.ops += ["fr eof 1", "fr state 1"]
    return c


def interleaved_case(rng):
    nconn = rng.choice([2, 2, 3])
    mode = rng.choice(MODES)
    shared_dom = rng.random() < 0.4
    doms = [5] * nconn if shared_dom else [10 + i for i in range(nconn)]
    badconn = rng.randrange(nconn) if rng.random() < 0.7 else -1
    streams = [long_stream(rng, dom=doms[i], bad=(i == badconn), shared={"mode": mode}, nmsgs=rng.randint(3, 12)) for i in range(nconn)]
    queues = []
    nt = False
    for i, st in enumerate(streams):
        s = st.bytes()
        _, cuts = multicuts(rng, s, st.bounds())
        if len(cuts) > 40:
            cuts = sorted(rng.sample(cuts, 40))
        nt = nt or any(c not in st.bounds() for c in cuts)
        queues.append(["fr seg %d %s" % (i + 1, seg.hex()) for seg in segments(s, cuts)])
    ops = ["fr new " + mode] + ["fr open %d" % (i + 1) for i in range(nconn)]
    live = [i for i in range(nconn) if queues[i]]
    while live:
        i = rng.choice(live)
        ops.append(queues[i].pop(0))
        if rng.random() < 0.15:
            ops.append("fr tick")
        for j in range(nconn):
            ops.append("fr state %d" % (j + 1))
        if not queues[i]:
            live.remove(i)
    if rng.random() < 0.3:
        ops += ["fr eof 1"] + ["fr state %d" % (j + 1) for j in range(nconn)]
        # the other connections still work after one has gone
        ops.append("fr seg 2 " + streams[1].msgs[0].hex())
    return Case(ops, "interleaved%d:%s:%s" % (nconn, "shared" if shared_dom else "own", "bad" if badconn >= 0 else "valid"), nt, True)


def batches(rng, tier):
    """yields lists of cases (bounded memory)"""
    if tier == "quick":
        n_single, n_double, n_long, n_inter = 200, 40, 600, 300
    else:
        n_single, n_double, n_long, n_inter = 1500, 400, 40000, 15000
    plan = short_stream_plan(rng, n_single)
    # the streams that get every pair of cut points: spread over the plan (every kind of stream)
    step = max(1, len(plan) // n_double)
    dbl = set(range(0, len(plan), step)[:n_double])
    batch, size = [], 0
    for k, st in enumerate(plan):
        cs = exhaustive_cases(st, k in dbl)
        batch += cs
        size += len(cs)
        if size > 40000:
            yield batch
            batch, size = [], 0
    if batch:
        yield batch
    rest = [long_case(rng) for _ in range(n_long)] + [interleaved_case(rng) for _ in range(n_inter)]
    for i in range(0, len(rest), 2500):
        yield rest[i:i + 2500]


def signature(case, verdict):
    return "C11:%s:%s" % (case.label.split(":")[0], " ".join(verdict.split(" ")[:2]))


def chk_lines(ops, obs):
    return ["chk %s | %s" % (o, x) for o, x in zip(ops, obs)]


def run(ctx):
    rng = random.Random(ctx.seed * 1000003 + 11)
    STATS.clear()
    shards = ctx.cores if ctx.tier == "thorough" else min(8, ctx.cores)
    dist = G.Counter()
    seen = set()
    disagreements, failures, samples = [], [], []
    ncases = nops = notrun = 0
    sampled = set()
    for batch in batches(rng, ctx.tier):
        impl, model = ctx.both(batch, shards=shards)
        # a harness process that hung or died takes the rest of its shard with it: run those cases again (twice at most)
        for _ in range(2):
            lost = [ci for ci in range(len(batch)) if all(o == "missing" for o in impl[ci])]
            if not lost:
                break
            again = exec_cases(ctx.harness, [batch[ci] for ci in lost], shards=shards)
            for ci, obs in zip(lost, again):
                impl[ci] = obs
        verdicts = exec_cases(ctx.driver, [Case(chk_lines(c.ops, impl[ci])) for ci, c in enumerate(batch)], shards=shards)
        for ci, c in enumerate(batch):
            if all(o == "missing" for o in impl[ci]):
                notrun += 1        # still not run: an earlier case killed the process each time; that case is the finding
                continue
            ncases += 1
            nops += len(c.ops)
            kind = c.label.split(":")[0]
            dist.add(c.label if kind.startswith("cut") or kind.startswith("inter") else kind + ":" + c.label.split(":")[-1])
            if c.nontrivial:
                seen.add(G.case_hash(c.ops))
            bad_pred = next(((oi, v) for oi, v in enumerate(verdicts[ci]) if v not in ("holds", "na")), None)
            for oi in range(len(c.ops)):
                i, m = impl[ci][oi], model[ci][oi]
                if c.ops[oi].startswith("fr seg"):
                    dist.add("delivered-by-segment:%d" % (0 if i == "-" else min(i.count(" | ") + 1, 5)))
                elif c.ops[oi].startswith("fr state"):
                    dist.add("state:" + i)
            for oi in range(len(c.ops)):
                i, m = impl[ci][oi], model[ci][oi]
                if i != m:
                    if len(disagreements) < 50:
                        disagreements.append({"op_index": oi, "ops": [o[:4000] for o in c.ops], "impl": (i or "")[:400], "model": (m or "")[:400],
                                              "label": c.label, "explained_by_predicate_failure": bad_pred is not None})
                    dist.add("disagreement")
                    break
            if bad_pred is not None:
                oi, v = bad_pred
                dist.add("predicate-failure")
                if len(failures) < 400:
                    failures.append({"signature": signature(c, v), "ops": list(c.ops), "op_index": oi, "impl": (impl[ci][oi] or "")[:400],
                                     "model": (model[ci][oi] or "")[:400], "label": c.label,
                                     "predicate": {"name": "Ipfix.C11.verdict / holdsState on SSys.seg (expected deliveries)", "value": v[:300]}})
            if kind not in sampled and len(samples) < 5:
                sampled.add(kind)
                samples.append({"label": c.label, "ops": [o[:160] for o in c.ops[:8]], "impl": [(o or "")[:160] for o in impl[ci][:8]]})
    # shrink the first failure of each signature (the fresh collector and the opens stay)
    done = set()
    for f in failures:
        if f["signature"] in done or len(done) >= 6:
            continue
        done.add(f["signature"])
        head = [o for o in f["ops"] if o.startswith("fr new") or o.startswith("fr open")]
        tail = [o for o in f["ops"] if o not in head]
        want = " ".join(f["predicate"]["value"].split(" ")[:2])     # shrink towards the same kind of failure

        def fails(cand):
            ops = head + cand
            io, _ = run_ops(ctx.harness, ops, timeout=120)
            vo, _ = run_ops(ctx.driver, chk_lines(ops, io), timeout=120)
            return any(" ".join(v.split(" ")[:2]) == want for v in vo)

        try:
            if len(tail) <= 400 and fails(tail):
                small = check.ddmin(tail, fails)
                ops = head + small
                io, _ = run_ops(ctx.harness, ops, timeout=120)
                mo, _ = run_ops(ctx.driver, ops, timeout=120)
                vo, _ = run_ops(ctx.driver, chk_lines(ops, io), timeout=120)
                k = next((k for k, v in enumerate(vo) if " ".join(v.split(" ")[:2]) == want), len(ops) - 1)
                f.update({"ops": ops, "impl": io[k][:400] if k < len(io) else "", "model": mo[k][:400] if k < len(mo) else "",
                          "op_index": k, "shrunk": True, "predicate": {"name": f["predicate"]["name"], "value": vo[k][:300]}})
        except Exception as e:   # shrinking is a convenience only
            f["note"] = "not shrunk: %r" % (e,)
    bysig = {}
    for f in failures:
        bysig.setdefault(f["signature"], f)
    ordered = list(bysig.values()) + [f for f in failures if bysig[f["signature"]] is not f]
    n_single, n_double = (200, 40) if ctx.tier == "quick" else (1500, 400)
    dist.update(STATS)
    if notrun:
        dist["not-run (the harness process hung or died in an earlier case)"] = notrun
        if not failures and not disagreements:
            disagreements.append({"ops": [], "impl": "missing", "model": "", "label": "harness died", "explained_by_predicate_failure": False})
    return {"evaluations": ncases, "distinct_nontrivial": len(seen), "samples": samples, "distribution": dict(dist),
            "disagreements": disagreements, "predicate_failures": ordered[:60], "out_of_domain_disagreements": 0,
            "exhaustive": False,
            "notes": ["%d cases, %d ops. %d short streams, each with the uncut stream and EVERY single cut point; %d of them also with "
                      "EVERY pair of cut points (per stream the cut space is enumerated completely; the streams are sampled)"
                      % (ncases, nops, n_single, n_double),
                      "long streams and interleaved connections: random multi-cuts (see rule); thorough-tier loopback sockets with "
                      "sleeps are not used: net.Pipe gives every segmentation exactly, timing adds none"]}
