"""C13 - the aggregation process is thread-safe / linearizable (PARTIAL: see SPEC.assumptions).

Fact regeneration (F4 for AggregationProcess: tools/lockfacts-agg -> Generated/LocksAgg.lean, at import
time because check.py builds the Lean targets before calling run), the -race harness builder, the
generators of small concurrent histories and of stress workloads, and the runner.

  small   <= 8 operations on 2-4 goroutines released together, stamped from one atomic counter; the
          recorded history goes through the Lean checker Ipfix.C13.holdsHistory (`chk lin small ... | hist ...`)
  stress  N in {1,2,4,8,16} goroutines on the public API + M messages through the built-in worker pool
          + scanner / query goroutines, two concurrent phases with the virtual clock moved in between;
          the final flow map, the queue (as a set) and the number of exports must equal the Lean model
          run on ONE serialisation (`lin stress ...` on driver_lin)
Every harness process runs under the race detector with GORACE="halt_on_error=1 exitcode=66".
"""
import os
import random
import subprocess
import threading

import check
from check import Case
from gen import aggcommon as AG
from gen import common as G

ROOT = check.ROOT
LOCKS_LEAN = os.path.join(check.LEAN, "IpfixModel", "Generated", "LocksAgg.lean")
A, I = 100, 250
STATS = [10, 5, 1000, 500, 3, 1, 300, 100]
RACE_ENV = "halt_on_error=1 exitcode=66 atexit_sleep_ms=100"     # of the worker processes (harness-lin starts them itself)


class SPEC:
    driver_target = "driver_lin"
    race = True
    rule = ("harness-lin (go build -race, GORACE=halt_on_error=1 exitcode=66) drives the REAL AggregationProcess under the virtual clock. "
            "(i) small histories: a sequential prefix (0-3 records on keys 1,2 - intra-node flows and inter-node flows that wait for "
            "correlation - and a clock advance onto / past the active or the inactive deadline), then <= 8 operations on 2-4 goroutines "
            "released together by a barrier {AggregateMsgByFlowKey of one record for key 1|2, ForAllExpiredFlowRecordsDo with a callback "
            "that fails on a chosen key set and resets statistics or not, GetNumFlows, GetExpiryFromExpirePriorityQueue, ForAllRecordsDo "
            "dump}, each stamped from ONE atomic counter before the call and after its return, clock frozen, GOMAXPROCS in {1,2,4,8,16}, "
            "seeded Gosched/sleep/spin perturbation; the recorded history + the final state (flow map, queue as a set) is judged by the "
            "Lean checker Ipfix.C13.holdsHistory (exists a real-time-consistent order whose sequential run on Model/Agg reproduces every "
            "response and the final state; soundness proved: linearizable_sound). (ii) stress: N in {1,2,4,8,16} goroutines ingesting "
            "into keys they own (rounds of records with increasing end times) and, under a harness-side ticket lock, into ONE shared key; "
            "M multi-record messages pushed through MessageChan to the built-in worker pool (Start() with 1-8 workers, drained by barrier "
            "messages, then Stop()); scanner goroutines (callbacks recorded: no key twice within a scan, none twice within a phase) and "
            "query goroutines (GetNumFlows, GetExpiry, GetRecords, dump, and `touch` = ForAllRecordsDo with a callback that WRITES a flag of every "
            "record it is shown - the documented use of that callback - so that two such callbacks, or one and GetRecords, race if they are not mutually exclusive); two concurrent phases, the clock moved in between so that phase 1 "
            "exports + resets the prefix flows at deadline == now and phase 2 exports every flow of phase 1 while it is being updated and "
            "removes the inactive ones; the final flow map, queue set and export count must EQUAL the Lean model run on one serialisation "
            "(justified by serialisation_independent). Exit code 66 / 'WARNING: DATA RACE' / a Go runtime fatal error is a predicate "
            "failure. Non-trivial = at least two operations overlap in time, measured by the stamps (small) / >= 2 goroutines (stress); "
            "distinct by hash of the case line.")
    assumptions = [
        "PARTIAL: proved = (atomic critical sections => linearizable) + soundness of the checker + what a sequential order gives on the "
        "model; OBSERVED, not proved = sync.RWMutex makes the critical sections atomic, no data race (Go race detector, which only sees the "
        "schedules that ran), the real code's responses are the model's (recorded histories)",
        "granularity: one atomic step per RECORD (AggregateMsgByFlowKey takes a.mutex once per record), one per scan, one per query",
        "the virtual clock does not move while operations run concurrently (it is read inside the critical sections; it moves between phases)",
        "the shared key of the stress workload is fed under a harness-side ticket lock: the model (and the code) add a record's deltas only "
        "if its end time is newer than the flow's, so concurrent same-key arrivals are order-DEPENDENT by design; truly concurrent same-key "
        "arrivals are covered by the small histories, where the checker searches for the order",
        "Stop() is only called once the worker pool is idle: Stop() holds a.mutex while it hands every worker its stop signal, so a worker "
        "blocked on a.mutex inside addOrUpdateRecordInMap at that moment would deadlock with it (liveness, outside C13's safety statement)",
        "httpVals (a JSON merge) is not configured, as in the other aggregation properties",
    ]
    trusted = [
        "tools/lockfacts-agg (go/ast: lock state along the statement order of each method of AggregationProcess, call graph, goroutine roots "
        "-> Generated/LocksAgg.lean; syntactic - no aliasing, no lock hand-over; cross-checked dynamically by the race detector runs)",
        "harness/cmd/harness-lin (barrier, stamping with sync/atomic, perturbation, worker-pool drain) and Go's race detector",
        "the overlay's mechanical rewrite time.Now() -> verifNow() in pkg/intermediate",
        "modelled, not verified: sync.RWMutex (critical sections atomic), goroutine scheduling (any interleaving of atomic steps), channels",
    ]


# ----------------------------------------------------------------------------------------
# F4: regenerate Generated/LocksAgg.lean (check.regen_facts() only knows tools/gofacts)

def regen_lockfacts():
    src = os.path.join(ROOT, "tools", "lockfacts-agg")
    out = os.path.join(check.BIN, "lockfacts-agg")
    os.makedirs(check.BIN, exist_ok=True)
    with check.Lock("lockfacts-agg"):
        if check.newer_than(src, out):
            r = check.run(["go", "build", "-o", out, "."], cwd=src, env=check.GOENV)
            if r.returncode != 0:
                return "lockfacts-agg does not build: " + r.stderr[-400:]
        r = check.run([out, check.REPO, os.path.dirname(LOCKS_LEAN)])   # honours VERIF_MUTANT_OVERLAY itself
        if r.returncode != 0:
            if os.path.exists(LOCKS_LEAN):     # the proofs must not be checked against stale facts
                os.remove(LOCKS_LEAN)
            return "lockfacts-agg cannot translate the current tree: " + r.stderr.strip()[-400:]
    return ""


FACTS_ERROR = regen_lockfacts()


def build_harness():
    with check.Lock("harness"):
        hd = os.path.join(ROOT, "harness")
        import shutil
        shutil.copyfile(os.path.join(check.REPO, "go.sum"), os.path.join(hd, "go.sum"))
        ov = check.write_overlay()
        out = os.path.join(check.BIN, "harness-lin")
        r = check.run(["go", "build", "-race", "-tags", "verif", "-overlay", ov, "-o", out, "./cmd/harness-lin"],
                      cwd=hd, env=check.GOENV, timeout=1800)
        if FACTS_ERROR:
            return False, FACTS_ERROR, out
        return r.returncode == 0, r.stderr, out


# ----------------------------------------------------------------------------------------
# generators

def tok(op_line):
    """'agg rec ...' -> 'rec ...'"""
    return op_line.split(" ", 1)[1]


def rec(key, end, mult=1, kind="intra", start=100):
    stats = [x * mult for x in STATS]
    if kind == "intra":
        return tok(AG.intra(key, start, end, stats))
    if kind == "src":
        return tok(AG.inter_src(key, start, end, stats))
    return tok(AG.inter_dst(key, start, end, stats))


def small_case(rng):
    """(line, label)"""
    cnt = [0]

    def next_rec(keys=(1, 2), kinds=("intra", "intra", "intra", "src", "dst")):
        cnt[0] += 1
        # mostly increasing end times (deltas accumulate); sometimes an old one (ignored by the aggregation)
        end = 100 + cnt[0] if rng.random() < 0.85 else 100 + rng.randint(0, cnt[0])
        return rec(rng.choice(keys), end, cnt[0], rng.choice(kinds))

    pre = []
    shape = rng.choice(["empty", "active", "active", "inactive", "mixed", "fresh"])
    if shape != "empty":
        for _ in range(rng.randint(1, 3)):
            pre.append(next_rec())
        if shape == "active":
            pre.append("adv %d" % rng.choice([A, A, A + 1, A + 20, A - 1]))
        elif shape == "inactive":
            pre.append("adv %d" % rng.choice([I, I, I + 1, I + 10, I - 1]))
        elif shape == "mixed":
            pre.append("adv %d" % rng.choice([A, A + 50]))
            pre.append(next_rec())
            pre.append("adv %d" % rng.choice([I - A, I - A - 50, A]))
        # "fresh": records, no advance (nothing is due)
    nthreads = rng.randint(2, 4)
    nops = rng.randint(max(2, nthreads), 8)
    threads = [[] for _ in range(nthreads)]
    order = list(range(nthreads)) + [rng.randrange(nthreads) for _ in range(nops - nthreads)]
    kinds = []
    for t in order:
        r = rng.random()
        if r < 0.42:
            op = next_rec()
            kinds.append("rec")
        elif r < 0.66:
            op = "scan %s %d" % (rng.choice(["-", "-", "-", "-", "1", "2", "1,2"]), rng.choice([0, 1]))
            kinds.append("scan")
        elif r < 0.78:
            op = "nflows"
            kinds.append("nflows")
        elif r < 0.88:
            op = "expiry"
            kinds.append("expiry")
        else:
            op = "dump"
            kinds.append("dump")
        threads[t].append(op)
    procs = rng.choice([1, 2, 2, 4, 4, 8, 16])
    seed = rng.randint(1, 10 ** 6)
    line = "lin small %d %d 0 %d %d seq %s @@ par %s" % (A, I, seed, procs, " ; ".join(pre) if pre else ";",
                                                         " @ ".join("g " + " ; ".join(t) for t in threads))
    label = "small:%s:t%d:n%d" % (shape, nthreads, nops)
    return line, label, kinds


def stress_case(rng, n_gor, tier):
    """two concurrent phases; see the module docstring. Returns (line, label)."""
    workers = rng.choice([1, 2, 4, 8])
    kpg = rng.randint(2, 4)               # keys per goroutine
    rounds = rng.randint(3, 8) if tier == "quick" else rng.randint(4, 14)
    nmsg = rng.choice([16, 32, 64])
    nexp = rng.randint(3, 8)              # prefix flows that expire
    nshared = rng.randint(n_gor, 4 * n_gor)
    nscan = rng.randint(1, 3)
    nquery = rng.randint(1, 3)
    procs = rng.choice([2, 4, 8, 16]) if n_gor > 1 else rng.choice([1, 2, 4])
    seed = rng.randint(1, 10 ** 6)
    EXP, SHARED, POOL = 60000, 50000, 40000
    pre = [rec(EXP + j, 101, 1) for j in range(nexp)] + ["adv %d" % A]      # deadline == now for the prefix flows
    segs = ["seq " + " ; ".join(pre)]
    ticket = 0
    pool_i = 0
    for phase in (1, 2):
        threads = []
        shr_left = nshared
        for g in range(n_gor):
            ops = []
            keys = [1000 * (g + 1) + j for j in range(kpg + (1 if phase == 2 else 0))]     # phase 2 adds a new key
            for r in range(rounds):
                rr = (phase - 1) * rounds + r + 1
                for k in keys:
                    ops.append(rec(k, 100 + rr, rr, "intra"))
                    if shr_left > 0 and rng.random() < 0.3:
                        ops.append("shr")
                        shr_left -= 1
                if rng.random() < 0.3:
                    ops.append(rng.choice(["nflows", "expiry"]))
            threads.append("g " + " ; ".join(ops))
        n_shr = nshared - shr_left
        if n_shr:
            sh = []
            for _ in range(n_shr):
                ticket += 1
                sh.append(rec(SHARED, 100 + ticket, ticket, "intra"))
            threads.append("shared " + " ; ".join(sh))
        msgs = []
        for _ in range(nmsg):
            pool_i += 1
            k = POOL + pool_i
            msgs.append(" + ".join(rec(k, 100 + e, e, "intra") for e in range(1, rng.randint(1, 3) + 1)))
        # two pushers share the messages
        half = len(msgs) // 2
        threads.append("pool " + " ; ".join(msgs[:half]))
        threads.append("pool " + " ; ".join(msgs[half:]))
        reset = 1 if phase == 1 else 0
        for _ in range(nscan):
            ops = []
            for _ in range(rng.randint(1, 6)):
                ops.append("scan - %d" % reset)
                if rng.random() < 0.5:
                    ops.append(rng.choice(["nflows", "expiry"]))
            threads.append("g " + " ; ".join(ops))
        for _ in range(nquery):
            ops = [rng.choice(["nflows", "expiry", "getrecs 0", "getrecs %d" % (1000 + rng.randint(0, 2)), "getrecs %d" % SHARED, "dump", "touch"])
                   for _ in range(rng.randint(3, 12))]
            threads.append("g " + " ; ".join(ops))
        segs.append("par " + " @ ".join(threads))
        if phase == 1:
            segs.append("seq adv %d" % (I - A + 10))       # now = I + 10: prefix flows inactive, phase-1 flows active-due
    line = "lin stress %d %d %d %d %d %s" % (A, I, workers, seed, procs, " @@ ".join(segs))
    return line, "stress:N%d:W%d" % (n_gor, workers)


# ----------------------------------------------------------------------------------------
# running the harness (stderr is needed: the race report)

def run_lines(binary, lines, procs_env=None, timeout=900):
    """Feed lines to one harness process. Returns (outputs, rc, stderr)."""
    # the process started here is harness-lin's supervisor (no work of its own: no exit pause); it runs the cases in worker
    # processes under VERIF_LIN_GORACE and turns a worker's death (race report = exit 66, fatal error, hang) into a `crash ...` answer
    env = dict(os.environ, GORACE="halt_on_error=1 exitcode=66 atexit_sleep_ms=0", VERIF_LIN_GORACE=RACE_ENV)
    try:
        r = subprocess.run([binary], input="\n".join(lines) + "\n", stdout=subprocess.PIPE, stderr=subprocess.PIPE, text=True,
                           timeout=timeout, env=env)
        return r.stdout.splitlines(), r.returncode, r.stderr
    except subprocess.TimeoutExpired as e:
        out = e.stdout or b""
        if isinstance(out, bytes):
            out = out.decode("utf-8", "replace")
        err = e.stderr or b""
        if isinstance(err, bytes):
            err = err.decode("utf-8", "replace")
        return out.splitlines(), -9, err + "\n[timeout]"


def run_batch(binary, lines, max_crashes=3):
    """Runs all lines; after a crash (race report = exit 66, Go fatal error, hang) the remaining lines go to a fresh process.
    Returns (outputs per line or None, crashes [(index, rc, stderr)])."""
    outs = [None] * len(lines)
    crashes = []
    pos = 0
    while pos < len(lines):
        got, rc, err = run_lines(binary, lines[pos:])
        for k, o in enumerate(got[:len(lines) - pos]):
            outs[pos + k] = o
        done = min(len(got), len(lines) - pos)
        if rc == 0 and done == len(lines) - pos:
            break
        culprit = pos + done            # the line that was running when the process ended
        if got and got[-1] == "hang":
            culprit = pos + done - 1
        crashes.append((min(culprit, len(lines) - 1), rc, err))
        pos = culprit + 1
        if len(crashes) >= max_crashes:
            break
    return outs, crashes


def parallel(jobs, nthreads):
    """jobs: list of thunks; returns their results in order"""
    results = [None] * len(jobs)
    it = iter(range(len(jobs)))
    lock = threading.Lock()

    def work():
        while True:
            with lock:
                i = next(it, None)
            if i is None:
                return
            results[i] = jobs[i]()

    ths = [threading.Thread(target=work) for _ in range(max(1, nthreads))]
    for t in ths:
        t.start()
    for t in ths:
        t.join()
    return results


def race_excerpt(err, limit=60):
    ls = err.splitlines()
    for i, l in enumerate(ls):
        if "WARNING: DATA RACE" in l or l.startswith("fatal error:") or l.startswith("panic:"):
            return "\n".join(ls[i:i + limit])
    return "\n".join(ls[-limit:])


def crash_signature(rc, err):
    if rc == 66 or "WARNING: DATA RACE" in err:
        return "C13:data-race"
    if "fatal error:" in err:
        return "C13:runtime-fatal"
    if rc == -9 or rc == 3:
        return "C13:hang"
    return "C13:harness-crash"


def crash_kind(ans):
    """'crash rc=66 kind=data-race <report>' -> 'data-race'"""
    p = ans.split(" ", 3)
    return p[2].split("=", 1)[1] if len(p) > 2 and p[2].startswith("kind=") else "harness-crash"


def crash_report(ans):
    p = ans.split(" ", 3)
    return p[3].replace("\\n", "\n") if len(p) > 3 else ""


def overlaps(hist_line):
    """do two operations of the recorded history overlap in time? (stamps)"""
    inv, res = {}, {}
    for ev in hist_line.split(" ; "):
        p = ev.split(" ")
        if len(p) >= 4 and p[1] == "inv":
            inv[p[0]] = int(p[3])
        elif len(p) >= 3 and p[1] == "res":
            res[p[0]] = int(p[2])
    ids = [i for i in inv if i in res]
    n = 0
    for x in ids:
        for y in ids:
            if x < y and inv[x] < res[y] and inv[y] < res[x]:
                n += 1
    return n


def first_diff(a, b):
    fa, fb = a.split(" "), b.split(" ")
    for i, (x, y) in enumerate(zip(fa, fb)):
        if x != y:
            xs, ys = x.split(";"), y.split(";")
            for u, v in zip(xs, ys):
                if u != v:
                    return "token %d: impl %s | model %s" % (i, u[:300], v[:300])
            return "token %d: impl has %d entries, model %d" % (i, len(xs), len(ys))
    return "lengths differ: impl %d tokens, model %d" % (len(fa), len(fb))


def run(ctx):
    rng = random.Random(ctx.seed * 1000003 + 13)
    thorough = ctx.tier == "thorough"
    n_small = 400000 if thorough else 2000
    n_stress = 1200 if thorough else 20
    par = ctx.cores if thorough else min(8, ctx.cores)
    dist = G.Counter()
    failures, disagreements, notes = [], [], []
    samples = []
    seen = set()

    def add_failure(sig, line, impl, model, value, note=""):
        failures.append({"signature": sig, "ops": [line], "impl": (impl or "")[:1500], "model": (model or "")[:1500],
                         "predicate": {"name": "Ipfix.C13.holdsHistory" if "small" in line[:10] else "C13 stress: final state = model on one serialisation, no race",
                                       "value": value[:300]}, "note": note[:6000]})

    # ---- (ii) stress runs first (they are the ones most likely to trip the race detector)
    stress = []
    ns = [1, 2, 4, 8, 16]
    for i in range(n_stress):
        stress.append(stress_case(rng, ns[i % len(ns)], ctx.tier))
    st_res = parallel([(lambda l=l: run_lines(ctx.harness, [l], timeout=600)) for l, _ in stress], max(1, par // 2))
    st_model = check.exec_cases(ctx.driver, [Case([l]) for l, _ in stress], shards=par)
    for (line, label), (out, rc, err), mod in zip(stress, st_res, st_model):
        dist.add(label)
        dist.add("stress")
        impl = out[0] if out else "missing"
        model = mod[0]
        if impl.startswith("crash "):
            sig = "C13:" + crash_kind(impl)
            dist.add("stress:" + sig)
            add_failure(sig, line, impl[:300], model[:200], "fails " + crash_kind(impl), crash_report(impl))
            continue
        if rc != 0 or "WARNING: DATA RACE" in err:
            sig = crash_signature(rc, err)
            dist.add("stress:" + sig)
            add_failure(sig, line, "exit %d; %s" % (rc, impl[:200]), model[:200], "fails " + sig, race_excerpt(err))
            continue
        seen.add(G.case_hash([line]))   # the pool, the scanners and the query goroutines run concurrently even with N = 1
        if impl != model:
            p = impl.split(" ")
            if len(p) > 1 and p[0] == "stress" and p[1] != "ok":
                sig, val = "C13:stress:" + p[1].split("_key=")[0], "fails stress-assertion " + p[1]
            elif len(p) > 2 and p[2] != model.split(" ")[2]:
                sig, val = "C13:stress-exports", "fails stress-exports impl %s model %s" % (p[2], model.split(" ")[2])
            else:
                sig, val = "C13:stress-final-state", "fails stress-final-state " + first_diff(impl, model)
            dist.add("stress:" + sig)
            add_failure(sig, line, impl, model, val, first_diff(impl, model))
            disagreements.append({"case": len(disagreements), "op_index": 0, "ops": [line[:2000]], "impl": impl[:600], "model": model[:600],
                                  "label": label, "explained_by_predicate_failure": True})
        else:
            dist.add("stress:equal-to-model")
            dist.add("stress:exports", int(impl.split(" ")[2].split("=")[1]))
        if len(samples) < 2:
            samples.append({"label": label, "ops": [line[:400] + " ..."], "impl": [impl[:300] + " ..."]})

    # ---- (i) small histories
    small = [small_case(rng) for _ in range(n_small)]
    lines = [s[0] for s in small]
    # few harness processes at a time: each has up to 4 goroutines that must really run side by side for operations to overlap
    par_small = max(2, ctx.cores // 2 if thorough else ctx.cores // 4)
    nsh = par_small * 4
    size = (len(lines) + nsh - 1) // nsh
    chunks = [lines[i:i + size] for i in range(0, len(lines), size)]
    res = parallel([(lambda c=c: run_batch(ctx.harness, c)) for c in chunks], par_small)
    hists = []
    for c, (outs, crashes) in zip(chunks, res):
        hists.extend(outs)
    base = 0
    for c, (outs, crashes) in zip(chunks, res):
        for (idx, rc, err) in crashes:
            sig = crash_signature(rc, err)
            dist.add("small:" + sig)
            add_failure(sig, c[idx], "exit %d" % rc, "", "fails " + sig, race_excerpt(err))
        base += len(c)
    chk_cases = [Case(["chk %s | %s" % (l, h)]) if h is not None and h.startswith("hist ") else Case(["# not run"]) for l, h in zip(lines, hists)]
    verdicts = check.exec_cases(ctx.driver, chk_cases, shards=par)
    n_overlap = 0
    for (line, label, kinds), h, v in zip(small, hists, verdicts):
        dist.add(label.split(":")[0] + ":" + label.split(":")[1])
        for k in kinds:
            dist.add("op:" + k)
        if h is None:
            dist.add("small:not-run")
            continue
        if h.startswith("crash "):
            dist.add("small:" + crash_kind(h))
            add_failure("C13:" + crash_kind(h), line, h[:300], "", "fails " + crash_kind(h), crash_report(h))
            continue
        if not h.startswith("hist "):
            dist.add("small:" + h.split(" ")[0])
            add_failure("C13:harness:" + h.split(" ")[0], line, h, "", "fails " + h[:100])
            continue
        ov = overlaps(h)
        dist.add("overlapping-pairs:%s" % (ov if ov < 6 else "6+"))
        if ov > 0:
            n_overlap += 1
            seen.add(G.case_hash([line]))
        verdict = v[0]
        dist.add("verdict:" + " ".join(verdict.split(" ")[:3]))
        if "harness-fail" in h:
            why = h.split("harness-fail ")[1]
            add_failure("C13:" + why.split(" ")[0], line, h, "", "fails " + why)
        elif verdict != "holds":
            add_failure("C13:" + ":".join(verdict.split(" ")[1:3]), line, h, "", verdict)
        if len(samples) < 5 and ov > 0:
            samples.append({"label": label, "ops": [line[:600]], "impl": [h[:600]], "verdict": verdict})
    notes.append("%d small histories (%d with overlapping operations) through Ipfix.C13.holdsHistory; %d stress runs compared with the model on one serialisation; "
                 "every harness process under the race detector (GORACE=%s)" % (len(small), n_overlap, len(stress), RACE_ENV))
    notes.append("PARTIAL: atomic => linearizable and the checker's soundness are proved; atomicity of sync.RWMutex critical sections and "
                 "freedom from data races are observed on these runs, not proved")
    bysig = {}
    for f in failures:
        bysig.setdefault(f["signature"], f)
    ordered = list(bysig.values()) + [f for f in failures if bysig[f["signature"]] is not f]
    return {"evaluations": len(small) + len(stress), "distinct_nontrivial": len(seen), "samples": samples[:5], "distribution": dict(dist),
            "disagreements": disagreements[:50], "predicate_failures": ordered[:60], "out_of_domain_disagreements": 0,
            "exhaustive": False, "notes": notes}


def replay(rp, attempts=20):
    """Re-run the case of a C13 replay file on the current tree. The implementation side is a concurrent run, so one execution
    says little: the case is run `attempts` times and the predicate evaluated on every run. Returns 1 if it fails at least once.
    (check.py's generic replay runs the case once and compares the harness answer with the model's line, which for a recorded
    history has no counterpart; `python3 -c "import json,sys; from gen import c13; sys.exit(c13.replay(json.load(open(PATH))))"`.)"""
    ok, err, hbin = build_harness()
    okd, _ = check.lake_build([SPEC.driver_target])
    if not (ok and okd):
        print("cannot build harness/driver:", err[-400:])
        return 2
    ops = rp.get("ops") or []
    bad = 0
    for k in range(attempts):
        outs, rc, err = run_lines(hbin, ops)
        outs = outs + ["missing"] * (len(ops) - len(outs))
        verd, _ = check.run_ops(check.driver_path(SPEC.driver_target), ["chk %s | %s" % (o, i) for o, i in zip(ops, outs)])
        fails = [v for v in verd if v.startswith("fails")]
        if fails or rc != 0:
            bad += 1
            print("attempt %d: %s" % (k + 1, (fails or ["exit %d" % rc])[0][:200]))
            for o in outs:
                if o.startswith("crash "):
                    print(crash_report(o)[:3000])
    print("REPLAY C13: the predicate failed on %d of %d runs of the case" % (bad, attempts))
    return 1 if bad else 0
