"""C04 - data is decoded with the right template: scoping, replacement, invalidation."""
import itertools
import random

from check import Case
from gen import common as G
from gen import ipfix as W
from gen.deccommon import run_dec


class SPEC:
    rule = ("engine dec; alphabet of 50 symbols = {template A, template B, bad template (unknown element in strict mode), template whose field "
            "count exceeds the specifiers present, template cut inside an enterprise number, template cut right after its id, a well-formed template with ZERO fields (replaces the older one), two pairs of templates with the same element ids under different enterprises (different / equal lengths), data} (+ a zero-field template record with the reserved id 2 per domain) x 2 observation domains x 2 template ids; A and B have different field lists of the "
            "same record length so decoding with the wrong one shows in the values. Quick: ALL histories of length <= 3 plus all "
            "length-4 histories ending in a data symbol, plus random histories of length 5..40; thorough: all of length <= 4, "
            "length-5 ending in data, random up to 200. After each history the stored template keys are compared. "
            "Non-trivial = the history has a data event after a template event for the same key.")
    assumptions = ["strict decoding mode; TCP collector (no template expiry)"]
    trusted = []


DOMS = [1, 2]
IDS = [256, 257]


def symbols():
    bt = G.by_type()
    u16 = bt[2][0]
    u32 = bt[3][0]
    A = [u16, u32]
    B = [u32, u16]
    unknown = G.IE(0, 29999, 0, 4, "")
    reg = {(ie.ent, ie.id): ie for ie in G.registry()}
    P101, Q101 = reg[(0, 101)], reg[(56506, 101)]
    R1, S1 = reg[(0, 1)], reg[(29305, 1)]
    UNSUP = next(ie for ie in G.registry() if ie.ty == 16)
    sym = {}
    rec = bytes([0x11, 0x22, 0x33, 0x44, 0x55, 0x66])
    for d in DOMS:
        for i in IDS:
            sym[("A", d, i)] = W.message(d, 2, W.template_body(i, A))
            sym[("B", d, i)] = W.message(d, 2, W.template_body(i, B))
            # bad: strict mode, unknown element after a known one -> fails after the id was read
            sym[("X", d, i)] = W.message(d, 2, W.template_body(i, [u16, unknown]))
            # cut: the body ends right after the template id (finding D13)
            sym[("T", d, i)] = W.message(d, 2, W.u16(i))
            # short: the field count announces more specifiers than the body holds
            sym[("Y", d, i)] = W.message(d, 2, W.template_body(i, A, count=3))
            # cut inside the enterprise number of the second specifier
            ent = G.IE(56506, 101, 13, 65535, "sourcePodName")
            sym[("Z", d, i)] = W.message(d, 2, W.template_body(i, [u16, ent])[:-2])
            # empty: a well-formed template record with zero fields - it REPLACES the older template (and
            # data for it is then refused: a record of length 0 cannot be sliced)
            sym[("E", d, i)] = W.message(d, 2, W.template_body(i, []))
            # P / Q: two templates whose fields carry the SAME element ids under different enterprises (IANA 101
            # classificationEngineId, 1 byte; Antrea 101 sourcePodName, variable length): a second template for an id
            # is a NEW definition even when only the enterprise numbers differ (the data symbol decodes to four
            # 3-byte records under P and is refused under Q)
            sym[("P", d, i)] = W.message(d, 2, W.template_body(i, [P101, u16]))
            sym[("Q", d, i)] = W.message(d, 2, W.template_body(i, [Q101, u16]))
            # R / S: the same element id AND length under two enterprises (IANA 1 octetDeltaCount, reverse 29305:1): only the
            # element's identity differs, which the decoded message shows as name / enterprise of its fields
            sym[("R", d, i)] = W.message(d, 2, W.template_body(i, [R1, u32]))
            sym[("S", d, i)] = W.message(d, 2, W.template_body(i, [S1, u32]))
            # U: a well-formed template whose second element IS in the registry but of a data type the library cannot
            # decode (flowStartMicroseconds, dateTimeMicroseconds): rejected after its id was read - the older template for
            # the id is erased, data that follows is refused
            sym[("U", d, i)] = W.message(d, 2, W.template_body(i, [u16, UNSUP]))
            sym[("D", d, i)] = W.message(d, i, rec + rec)
    for d in DOMS:
        sym[("W", d, 2)] = W.message(d, 2, W.template_body(2, []))
    # keys that COLLIDE under a careless way of combining (observation domain, template id) into one key: a 32-bit
    # shift-and-or (domains equal modulo 2^16), decimal concatenation (1|1256 = 11|256), sum / xor, an id or a domain
    # narrowed to fewer bits, a signed domain (top bit set) - only the plain symbols A, B, X (bad template) and D
    for (d, i) in COLLIDING:
        sym[("A", d, i)] = W.message(d, 2, W.template_body(i, A))
        sym[("B", d, i)] = W.message(d, 2, W.template_body(i, B))
        sym[("X", d, i)] = W.message(d, 2, W.template_body(i, [u16, unknown]))
        sym[("D", d, i)] = W.message(d, i, rec + rec)
    return sym


COLLIDING = [(65537, 256), (0x00020001, 256), (0x80000001, 256), (0xFFFFFFFF, 256), (0xFFFF0001, 257), (1, 512), (257, 256), (1, 65535),
             (11, 256), (1, 1256), (2, 255 + 256), (256, 257), (0, 256), (0, 257), (1 << 16, 256), (1 << 31, 256)]


def nontrivial(hist):
    seen = set()
    for (k, d, i) in hist:
        if k in "AB":
            seen.add((d, i))
        if k == "D" and (d, i) in seen:
            return True
    return False


def gen_cases(rng, tier):
    sym = symbols()
    allkeys = sorted(sym)
    keys = [k for k in allkeys if k[0] not in "PQRSWU" and k[1:] not in COLLIDING]      # the exhaustive enumeration below (P/Q: see further down)
    cases = []

    def add(hist, label):
        # one history in three runs on a collector configured for udp (templates with a lifetime; same decoding)
        ops = ["dec new strict" + (" udp" if len(cases) % 3 == 1 else "")] + ["dec pkt " + sym[s].hex() for s in hist] + ["dec keys"]
        if label in ("same-ids-other-enterprise", "random", "colliding-keys"):
            # ... and the content of what is stored for the keys the history touched (element identities)
            ops += ["dec tpl %d %d" % (d, i) for (d, i) in sorted({(k[1], k[2]) for k in hist})]
        cases.append(Case(ops, label, nontrivial(hist), True))

    full = 3 if tier == "quick" else 4
    for n in range(1, full + 1):
        for hist in itertools.product(keys, repeat=n):
            add(hist, "exh%d" % n)
    datas = [k for k in keys if k[0] == "D"]
    for hist in itertools.product(keys, repeat=full):
        for d in datas:
            add(hist + (d,), "exh%d-data" % (full + 1))
    # same element ids under another enterprise: all histories of length <= 4 (+ a data symbol) over the symbols of ONE key
    one = [k for k in allkeys if k[1:] == (1, 256) and k[0] in "APQRSXEDU"] + [("W", 1, 2)]
    for n in range(1, 5):
        for hist in itertools.product(one, repeat=n):
            if any(k[0] in "PQRSWU" for k in hist):
                add(hist + (("D", 1, 256),), "same-ids-other-enterprise")
    # colliding keys: for every ordered pair of DIFFERENT (domain, id) keys out of the core and the colliding ones - a template
    # for the first, nothing / another template / a bad template for the second, then data for both (each key decodes with its
    # own template or is refused; a bad template erases its own key only)
    pool = [(d, i) for d in DOMS for i in IDS] + COLLIDING
    for k1 in pool:
        for k2 in pool:
            if k1 == k2 or (k1 not in COLLIDING and k2 not in COLLIDING):
                continue
            for mid in ("", "B", "X", "BX"):
                hist = (("A",) + k1,) + tuple((m,) + k2 for m in mid) + (("D",) + k1, ("D",) + k2)
                if (len(cases) + len(mid)) % 2:
                    hist = hist + (("X",) + k1, ("D",) + k2, ("D",) + k1)
                add(hist, "colliding-keys")
    keys = allkeys                                       # the random histories draw from the whole alphabet
    nrand = 3000 if tier == "quick" else 40000
    maxlen = 40 if tier == "quick" else 200
    for _ in range(nrand):
        n = rng.randint(5, maxlen)
        add(tuple(rng.choice(keys) for _ in range(n)), "random")
    return cases


def signature(case, oi, verdict, agrees_with_model=False):
    op = case.ops[oi]
    v = verdict.split(" ")
    kind = " ".join(v[:2])
    # the specific shape behind finding D13: an older template survived a template set that was cut
    # right after its id, i.e. some earlier op in this case is a 22-byte template message
    cut = any(o.startswith("dec pkt ") and len(o) == 8 + 44 and o[8 + 32:8 + 36] == "0002" for o in case.ops[:oi])
    # ... and only when the implementation behaves exactly like the model of the current code on the
    # whole history (the model has D13 built in); any other deviation is a new violation
    return "C04:%s:%s" % (kind, "after-template-cut-after-id" if cut and agrees_with_model else "other")


def run(ctx):
    rng = random.Random(ctx.seed * 1000003 + 4)
    cases = gen_cases(rng, ctx.tier)
    res = run_dec(ctx, cases, "C04", signature, use_spec=True)
    res["notes"].append("histories enumerated exhaustively up to the stated length over the 32-symbol core alphabet (all 44 symbols in the random histories and the dedicated same-ids family)")
    return res
