"""C05 - flow aggregation arithmetic: sums, latest values and throughput are conserved."""
import random

from check import Case
from gen import aggcommon as AG
from gen import common as G
from gen.simple import run_simple


class SPEC:
    rule = ("engine agg under the virtual clock, public API (AggregateMsgByFlowKey, ForAllRecordsDo, expiry scan whose callback resets the "
            "statistics; a further 30 % of the histories hand over data sets of 2..4 records of mixed five-tuples which were encoded by the "
            "exporter code and decoded by a collecting process, the production path of the records): histories of 1..80 records over a pool of 2..6 five-tuples (IPv4 and IPv6, tuples differing in a single "
            "component), all flow types (single-stream and correlated inter-node flows), per reporting node strictly increasing end times "
            "and non-decreasing totals, end > start, counters of adversarial magnitude (0, 1, 2^32 +- 1, 2^61 +- 1, near 2^64), interleaved "
            "with exports-with-reset, clock advances (inactive expiry restarts a flow) and a dump after every step; about 5 % of the records (and of the "
            "data sets) lack one of the non-pod correlate fields, as records of an exporter whose template has no such element. The declarative "
            "Every second history creates the process from the same configuration with its lists written in another order (`cfg<n>`: the two per-node "
            "end-time elements swapped, the three aligned statistics lists under one permutation, the non-stats list shuffled). A further 20 % of the "
            "histories configure httpVals among the non-stats elements (`http`): every record carries an httpVals value - empty, a JSON object, or "
            "text that is no JSON (a legal string) - which must not disturb the arithmetic; the stored value (Agg.fillHttp) is compared in the dumps. The declarative "
            "history-level specification Ipfix.C05.expected (sums / latest values / max / throughput formula as folds over the flow's history) "
            "is evaluated on every dumped and exported record of the implementation. A second stream violates the contract on purpose (equal "
            "end times, decreasing totals); it is compared with the model but reported as out-of-domain only. Records sent with an odd element-order seed (`p<n>`) "
            "carry their IPv4 key addresses in the 16-byte form (what net.ParseIP returns), the others in the 4-byte form: one flow. "
            "Crash-only sessions (implementation alone; the model has no such "
            "records): a flow's first, second or third record comes from a template that lacks one or two of the elements the engine "
            "puts into a record (`omit=<names>`: flow type, times, end reason, tcpState, pod names, key fields, any counter), followed by "
            "dumps and expiry scans with and without reset - the aggregation may refuse such a record but must answer every "
            "operation. Flow-key sessions (`agg key`, getFlowKeyFromRecord through the overlay hook VerifFlowKey against Model/FlowKey.keyLoop): "
            "8..30 records that carry any subset of the seven key elements, drawn from a few five-tuples and their near misses (one component "
            "changed, addresses or ports swapped, IPv4 addresses in the 4- and the 16-byte form, both address families on one side, values of no "
            "legal length); Spec.C05.judgeKey demands of the implementation's answers: refused exactly when an element the key needs is missing, "
            "and the same key as an EARLIER record of the session exactly when the two denote the same five-tuple. "
            "Non-trivial = >= 2 records on one key.")
    assumptions = ["net.IP.String() is injective on address classes (no bytes / a length other than 4 and 16 / an IPv4 address in either form / any "
                   "other 16 bytes): modelled (Model/FlowKey.IPText), exercised by the harness which parses the key's texts back, not verified",
                   "the exporter contract of the property (per node: end times strictly increase, totals do not decrease, end > start) and "
                   "8 x (octet total growth) < 2^64 (the wrap branch is the theorem throughput_wraps)",
                   "Antrea's configuration of statistics elements (its lists in the usual and in permuted orders); httpVals configured in the `http` "
                   "histories only, its values from the model's value language (empty, an object of plain decimal ids and alphanumeric texts without "
                   "white space, or text that is no JSON object at all)"]
    trusted = ["the overlay's mechanical rewrite time.Now() -> verifNow() in pkg/intermediate"]


A, I = 1000, 3000
MAGS = [0, 1, 2, 1000, 2 ** 32 - 1, 2 ** 32, 2 ** 32 + 1, 2 ** 61 - 1]


class Node:
    def __init__(self, rng, start):
        self.end = start
        self.tot = [0, 0, 0, 0]   # packetTotal, octetTotal, revPacketTotal, revOctetTotal
        self.rng = rng

    def next(self, contract=True):
        rng = self.rng
        if contract:
            step = rng.choice([1, 1, 2, 5, 60, 3600])
            if rng.random() < 0.03:                       # gaps of 2^31 s and more: elapsed times are unsigned 32-bit
                step = rng.choice([2 ** 31 - 1, 2 ** 31, 2 ** 31 + 7, 3 * 2 ** 30])
            # end times are unsigned 32-bit and must keep increasing: no step lands in the last 400 seconds of
            # the range, which are left to the single steps of the (at most 4 x 80) later records of the node
            if self.end + step < 2 ** 32 - 400:
                self.end += step
            else:
                self.end += 1
            assert self.end < 2 ** 32
            self.tot = [t + rng.choice([0, 1, 7, 1500, 2 ** 20, rng.choice(MAGS)]) for t in self.tot]
            self.tot = [min(t, 2 ** 61) for t in self.tot]
        else:
            self.end = max(0, self.end + rng.choice([0, 0, 1, -1]))
            self.tot = [max(0, t + rng.choice([-5, 0, 3])) for t in self.tot]
        deltas = [rng.choice([0, 1, 5, 1000, rng.choice(MAGS), 2 ** 64 - 1 - rng.randint(0, 3)]) for _ in range(4)]
        # stats order: pktTotal, pktDelta, octTotal, octDelta, rev...
        return self.end, [self.tot[0], deltas[0], self.tot[1], deltas[1], self.tot[2], deltas[2], self.tot[3], deltas[3]]


HTTP_KEYS = [0, 1, 2, 3, 5, 10, 12, 20, 100, 999999999]
HTTP_BROKEN = ['{"1":"a"', "garbage", '{"1":"a",}', '{"x":"a"}', '{"1":5}', "[1]", "{", '"a"', '{"2147483648":"a"}', '{"1":"a"}}', '{"1":"GET']


def http_value(rng):
    """what a record's httpVals element holds: nothing, an object {"<transaction id>":"<text>",...} (the model's value
    language: no white space, plain decimal ids, texts of letters and digits), or text that is not such an object (cut
    off by the exporter, ...) - a legal value of a string element"""
    r = rng.random()
    if r < 0.35:
        return ""
    if r < 0.8:
        ids = rng.sample(HTTP_KEYS, rng.randint(1, 3))
        return "{" + ",".join('"%d":"%s"' % (i, "".join(rng.choice("abzGET09") for _ in range(rng.randint(0, 6)))) for i in ids) + "}"
    return rng.choice(HTTP_BROKEN)


def history(rng, tier, contract=True, msgs=False, http=False):
    """msgs: most records arrive in data sets of 2..4 records (`agg msg`: exporter encoding -> collector decoding ->
    aggregation) in which records of different five-tuples are mixed with records of the same one.
    http: httpVals is one of the configured non-stats elements (`agg new ... http`) and every record carries one"""
    keys = rng.sample([1, 2, 3, 4, 5, 6], rng.randint(2, 6))
    kinds = {}
    nodes = {}
    ops = ["agg new %d %d" % (A, I) + (" http" if http else "")]
    hv = (lambda: dict(http=http_value(rng))) if http else (lambda: {})
    n = rng.randint(1, 80)
    perm_p = rng.choice([0, 0, 0.3, 1.0])
    per_key = {}

    def rec_for(k):
        if k not in kinds:
            kinds[k] = rng.choice(["intra", "intra", "inter", "inter", "external", "egress-drop"])
            start = rng.choice([100, 1000, 1, 0])
            nodes[k] = {"S": Node(rng, start), "D": Node(rng, start), "start": start}
        kind = kinds[k]
        per_key[k] = per_key.get(k, 0) + 1
        if kind == "intra":
            e, st = nodes[k]["S"].next(contract)
            return AG.rec_op(k, 1, AG.corr("podA", "podB"), nodes[k]["start"], e, st, reason=rng.choice([1, 2, 3]), tcp=rng.choice(["ESTABLISHED", "TIME_WAIT", ""]), **hv())
        if kind == "external":
            e, st = nodes[k]["S"].next(contract)
            return AG.rec_op(k, 3, AG.corr("podA", ""), nodes[k]["start"], e, st, **hv())
        if kind == "egress-drop":
            e, st = nodes[k]["S"].next(contract)
            return AG.inter_src(k, nodes[k]["start"], e, st, egress=2, **hv())
        side = rng.choice("SD")
        e, st = nodes[k][side].next(contract)
        f = AG.inter_src if side == "S" else AG.inter_dst
        return f(k, nodes[k]["start"], e, st, **hv())

    for _ in range(n):
        r = rng.random()
        if r < 0.72 and msgs and rng.random() < 0.75:
            # one data set: the five-tuples of one address family (one template), several of them where the pool has
            # them; a flow which starts with this message has, in most cases, its first record NOT at the end
            k0 = rng.choice(keys)
            family = [k for k in keys if AG.is_v6(k) == AG.is_v6(k0)]
            # (one message in eight is LONG: 13..40 records in which a few five-tuples alternate, each several times -
            # their records must be aggregated in the order of the message)
            more = rng.randint(12, 39) if rng.random() < 0.125 else rng.randint(1, 3)
            ks = [k0] + [rng.choice(family) if rng.random() < 0.8 else k0 for _ in range(more)]
            if ks[-1] not in kinds and ks.count(ks[-1]) == 1 and rng.random() < 0.7:
                ks.insert(rng.randrange(len(ks) - 1), ks.pop())
            recs = AG.sprinkle_absent([rec_for(k) for k in ks], keep=(AG.EGRESS,))
            ops.append(AG.msg_op(recs, rng.randrange(1, 1 << 30) if perm_p and rng.random() < perm_p else None))
            ops.append("agg dump")
        elif r < 0.72:
            k = rng.choice(keys)
            # (a flow denied at egress keeps its egress action: without it the record would need correlation, and
            # the records of a flow must agree on that - the contract)
            ops.append(AG.sprinkle_absent([rec_for(k)], keep=(AG.EGRESS,))[0])
            if perm_p and rng.random() < perm_p:
                # exporters need not list the fields of a record in the same order (and a template refresh may reorder them)
                ops[-1] += " p%d" % rng.randrange(1, 1 << 30)
            ops.append("agg dump")
        elif r < 0.82:
            ops += ["agg adv %d" % rng.choice([1, 500, A, A + 1]), "agg scan - 1", "agg dump"]
        elif r < 0.9:
            ops += ["agg adv %d" % rng.choice([1, 200]), "agg scan %s 1" % rng.choice(["1", "2", "-"]), "agg dump"]
        elif r < 0.95:
            # inactive expiry: the flows end and later records start new ones
            ops += ["agg adv %d" % (I + 1), "agg scan - 0", "agg dump"]
            kinds.clear()
            nodes.clear()
        else:
            ops += ["agg adv %d" % rng.choice([1, 10]), "agg dump"]
    nt = any(v >= 2 for v in per_key.values())
    return Case(ops, ("contract" if contract else "violating") + ("-msg" if msgs else "") + ("-http" if http else ""), nt, contract)


V4MAP = "00000000000000000000ffff"


def key_session(rng):
    """`agg key`: the flow key of records that carry any subset of the seven elements the key is made of. A session asks for
    the keys of 8..30 records drawn from a small family of five-tuples and their NEAR MISSES - one component changed (a port,
    the protocol, one address byte), the two addresses swapped, the two ports swapped, an IPv4 address in its 4-byte and in
    its 16-byte form (the same address), the same 32 bits as an IPv6 prefix (another address), both address families on one
    side (the IPv6 one is not consulted), elements missing, address values of no legal length (no bytes, 3, 5, 15, 17) -
    and judges every answer against all earlier ones: the same key exactly for the same five-tuple."""
    def v4():
        return rng.choice(["0a000001", "0a000002", "0a000102", "00000000", "ffffffff", "c0a80001", "0a000001"])

    def v6():
        return rng.choice(["20010db8000000000000000000000001", "20010db8000000000000000000000002", "00000000000000000000000000000000",
                           "00000000000000000000000000000001", "0a000001000000000000000000000000", V4MAP + "0a000001", V4MAP + "0a000002",
                           "fe800000000000000000000000000001"])
    bases = []
    for _ in range(rng.randint(1, 3)):
        fam6 = rng.random() < 0.4
        bases.append(dict(sport=rng.choice([0, 1, 80, 1234, 65535]), dport=rng.choice([0, 1, 80, 5678, 65535]), proto=rng.choice([0, 6, 17, 255]),
                          src=("6", v6()) if fam6 else ("4", v4()), dst=("6", v6()) if fam6 else ("4", v4())))
    ops = ["agg new %d %d" % (A, I)]
    nok = 0
    for _ in range(rng.randint(8, 30)):
        b = dict(rng.choice(bases))
        m = rng.random()
        if m < 0.12:
            b["sport"] = rng.choice([b["sport"] ^ 1, b["dport"], (b["sport"] + 256) % 65536])
        elif m < 0.24:
            b["dport"] = rng.choice([b["dport"] ^ 1, b["sport"], (b["dport"] + 256) % 65536])
        elif m < 0.36:
            b["proto"] = rng.choice([6, 17, b["proto"] ^ 1, 1])
        elif m < 0.46:
            b["src"], b["dst"] = b["dst"], b["src"]
        elif m < 0.52:
            b["sport"], b["dport"] = b["dport"], b["sport"]
        elif m < 0.62:
            side = rng.choice(["src", "dst"])
            fam, a = b[side]
            i = rng.randrange(len(a) // 2)
            b[side] = (fam, a[:2 * i] + "%02x" % (int(a[2 * i:2 * i + 2], 16) ^ rng.choice([1, 0x80, 0xff])) + a[2 * i + 2:])
        toks = {"src4": "~", "dst4": "~", "src6": "~", "dst6": "~"}
        for side in ("src", "dst"):
            fam, a = b[side]
            form = rng.random()
            if fam == "4":
                if form < 0.55:
                    toks[side + "4"] = "x" + a                      # 4-byte form
                elif form < 0.8:
                    toks[side + "4"] = "x" + V4MAP + a              # 16-byte form of the same address
                elif form < 0.9:
                    toks[side + "6"] = "x" + V4MAP + a              # ... carried by the IPv6 element
                else:
                    toks[side + "6"] = "x" + a + "00" * 12          # the same 32 bits as an IPv6 prefix: another address
            else:
                toks[side + "6"] = "x" + a
                if form < 0.15:
                    toks[side + "4"] = "x" + v4()                   # both families: the IPv4 address is the key's
            if form > 0.93:
                toks[side + "6"] = "x" + v6()                       # an IPv6 address next to an IPv4 one is not consulted
        r = rng.random()
        if r < 0.1:
            toks[rng.choice(list(toks))] = "~"
        elif r < 0.16:
            toks[rng.choice(list(toks))] = "x" + rng.choice(["-", "0a0000", "0a00000102", "00" * 15, "00" * 17, "0a"])
        nums = [str(b["sport"]), str(b["dport"]), str(b["proto"])]
        if rng.random() < 0.06:
            nums[rng.randrange(3)] = "~"
        op = "agg key %s %s %s %s %s %s %s" % (nums[0], nums[1], nums[2], toks["src4"], toks["dst4"], toks["src6"], toks["dst6"])
        if rng.random() < 0.5:
            op += " p%d" % rng.randrange(1, 1 << 30)
        nok += "~" not in nums
        ops.append(op)
    return Case(ops, "flow-key", nok >= 2, True)


def run(ctx):
    rng = random.Random(ctx.seed * 1000003 + 5)
    cases = []
    rng6 = random.Random(ctx.seed * 1000003 + 508)
    for _ in range(400 if ctx.tier == "quick" else 20000):
        cases.append(key_session(rng6))
    n = 1500 if ctx.tier == "quick" else 60000
    for _ in range(n):
        cases.append(history(rng, ctx.tier, True))
    for _ in range(n // 6):
        cases.append(history(rng, ctx.tier, False))
    # a further 30 %: the records reach the aggregation as the collector decoded them, several per data set
    # (own stream of random numbers: the histories above do not depend on these)
    rng2 = random.Random(ctx.seed * 1000003 + 505)
    for _ in range(n * 3 // 10):
        cases.append(history(rng2, ctx.tier, True, msgs=True))
    for _ in range(n // 40):
        cases.append(history(rng2, ctx.tier, False, msgs=True))
    # httpVals configured (own stream of random numbers): every record says what its httpVals element holds - nothing, a
    # JSON object, or text which is no JSON; the arithmetic must not depend on it, and the stored value is the merge
    rng4 = random.Random(ctx.seed * 1000003 + 507)
    for j in range(n // 5):
        cases.append(history(rng4, ctx.tier, j % 7 != 6, msgs=(j % 3 == 2), http=True))
    AG.with_cfg(cases)
    # tokens the harness refuses because they do not fit the element's type (times: unsigned32, flow type and end
    # reason: unsigned8, counters: unsigned64, key: the engine's table): refused by the model's parser too
    ok = AG.intra(1, 100, 101, [1, 1, 1, 1, 1, 1, 1, 1])
    f = ok.split(" ")

    def with_field(i, v):
        g = list(f)
        g[i] = v
        return " ".join(g)
    bad = [with_field(6, str(2 ** 32)), with_field(5, str(2 ** 32)), with_field(7, "256"), with_field(3, "256"), with_field(2, "7"),
           with_field(9, "1,1,1,1,1,1,1,%d" % 2 ** 64), with_field(6, "1_0"),
           with_field(4, ",".join("n256" if i == AG.INGRESS else t for i, t in enumerate(f[4].split(","))))]
    for b in bad:
        cases.append(Case(["agg new %d %d" % (A, I), b, "agg dump", ok, AG.msg_op([ok, b]), "agg dump"], "out-of-range", False, False))
    # judge-only (outside the model: it has no record without tcpState): the two nodes of a flow - or two exports of one
    # node - use templates that differ in a configured NON-STATS element. Whatever the aggregation answers (it may refuse
    # the record), it must not crash, and what it holds afterwards must still be dumpable.
    crash_only = []
    for key, ft in ((1, 1), (2, 2), (3, 3)):
        for first_has, second_has in ((False, True), (True, False), (False, False)):
            mk = lambda has, e: with_field(8, "45535441424c4953484544" if has else "~").replace(" 1 1 ", " %d %d " % (key, ft), 1).replace(" 100 101 ", " 100 %d " % e, 1)
            crash_only.append(["agg new %d %d" % (A, I), mk(first_has, 101), mk(second_has, 102), "agg dump", mk(True, 103), "agg dump",
                               "agg adv %d" % (A + 1), "agg scan - 1", "agg dump"])
    # ... and records whose template lacks ANY of the elements the engine puts into a record (omit=<names>), alone and in
    # pairs, as the first, the second or the third record of a flow, followed by dumps and by an expiry scan whose
    # callback resets the statistics
    import itertools
    names = ["flowType", "flowStartSeconds", "flowEndSeconds", "flowEndReason", "tcpState", "sourcePodName", "destinationPodName",
             "sourceTransportPort", "destinationTransportPort", "protocolIdentifier", "sourceIPv4Address", "destinationIPv4Address"] + \
            ["packetTotalCount", "packetDeltaCount", "octetTotalCount", "octetDeltaCount", "reversePacketTotalCount",
             "reversePacketDeltaCount", "reverseOctetTotalCount", "reverseOctetDeltaCount"] + \
            ["sourcePodNamespace", "sourceNodeName", "destinationNodeName", "destinationClusterIPv4", "destinationServicePort",
             "ingressNetworkPolicyRuleAction", "egressNetworkPolicyRuleAction", "ingressNetworkPolicyRulePriority", "destinationClusterIPv6"]
    rng3 = random.Random(ctx.seed * 1000003 + 506)
    pairs = [list(c) for c in itertools.combinations(names, 2)]
    combos = [[x] for x in names] + (pairs if ctx.tier == "thorough" else rng3.sample(pairs, 60)) + \
             [rng3.sample(names, 3) for _ in range(20 if ctx.tier == "quick" else 600)]
    src, dst = AG.inter_src(2, 100, 101, [1] * 8), AG.inter_dst(2, 100, 101, [1] * 8)
    for om in combos:
        for pos in (0, 1, 2):
            # the flow: intra-node, to-external, or inter-node with the two nodes' records alternating (either node first)
            for shape in (("intra", "sd", "ds", "ext") if ctx.tier == "thorough" else (rng3.choice(["intra", "ext"]), rng3.choice(["sd", "ds"]))):
                recs = []
                for j in range(3):
                    o = {"intra": ok, "ext": ok.replace(" 1 1 ", " 3 3 ", 1), "sd": src if j % 2 == 0 else dst, "ds": dst if j % 2 == 0 else src}[shape]
                    o = o.replace(" 100 101 ", " 100 %d " % (101 + j), 1)
                    recs.append(o + (" omit=" + ",".join(om) if j == pos else ""))
                crash_only.append(["agg new %d %d" % (A, I)] + recs[:2] + ["agg dump", recs[2], "agg dump", "agg adv %d" % (A + 1),
                                                                       "agg scan - 1", "agg dump", "agg adv %d" % (I + 1), "agg scan - 0", "agg dump"])
    res = run_simple(ctx, cases, "C05", chk_filter=lambda op: True, stateful_chk=True,
                     chk_variant=lambda op: "agga" + op[3:],
                     signature=lambda c, oi, v, agrees: "C05:%s" % " ".join(v.split(" ")[:3]))
    # the crash-only sessions: implementation alone (the model has no such record), every answer must be an answer
    from check import run_ops
    for ops in crash_only:
        io, _ = run_ops(ctx.harness, ops, timeout=60)
        io = io + ["missing"] * (len(ops) - len(io))
        for oi, x in enumerate(io):
            if x in ("panic", "hang", "missing"):
                om = [t for o in ops for t in o.split(" ") if t.startswith("omit=")]
                what = "no-tcpstate" if not om else "omit:" + om[0][5:]
                res["predicate_failures"].append({"signature": "C05:%s:fails crash" % what, "ops": ops[:oi + 1], "impl": x, "model": "-",
                                                  "predicate": {"name": "no-crash rule (the implementation must answer every operation)", "value": "fails crash"}})
                break
    res["distribution"]["crash-only sessions (records lacking elements)"] = len(crash_only)
    res["evaluations"] = sum(AG.n_records(o) for c in cases for o in c.ops)
    nmsg = sum(1 for c in cases for o in c.ops if o.startswith("agg msg"))
    nmix = sum(1 for c in cases for o in c.ops if o.startswith("agg msg") and len({g.split()[0] for g in o[8:].split(" + ")}) > 1)
    res["notes"].append("%d histories (%d contract-violating, diagnostic only; %d deliver records in multi-record data sets through "
                        "the collector: %d messages, %d with several five-tuples); evaluations counts records ingested"
                        % (len(cases), n // 6 + n // 40, n * 3 // 10 + n // 40, nmsg, nmix))
    return res
