"""C19 - Kafka publication: fact regeneration (F6), harness builder, stream generator and runner."""
import json
import os
import random
import re
import shutil
import subprocess

import check
from check import Case
from gen import common as G

ROOT = check.ROOT
PROTO_LEAN = os.path.join(check.LEAN, "IpfixModel", "Generated", "Proto.lean")


class SPEC:
    driver_target = "driver_kafka"
    rule = ("op `kafka <schema> <succ> <topic> <msg>*`: a whole stream (<= 20 template/data messages, 0..8 records each) is sent "
            "over ONE channel through the real producer.KafkaProducer.PublishIPFIXMessages (FlowType1/FlowType2 convertor, "
            "proto.Marshal, SendFlowMessage) into a recording sarama.AsyncProducer; every published value is then given to the real "
            "consumer.DecodeAndPrintMsg. The observation (topic, payload bytes, consumer verdict, fields the consumer holds) must "
            "equal the Lean model's byte for byte, and Spec.C19.holdsOn (count, order, topic, frame prefix = real length, "
            "independent proto decoder = reference name mapping, consumer accepts and recovers) is evaluated on the implementation's "
            "observation. Streams: both schemas, IPv4 / IPv6 / mixed element sets, values 0 / max / random, empty / long / "
            "multi-byte UTF-8 strings, elements the schema does not know, partial element sets, duplicated elements (last one wins), "
            "zero-record data messages, records without elements, template messages with records. Non-trivial = contains a data "
            "message with >= 2 records; distinct by hash of the op. A dedicated small group carries strings that are not valid "
            "UTF-8 (known finding D14); a small out-of-domain group carries ill-typed elements (the convertor panics). The recording "
            "producer reports a broker failure on Errors() for every third message it was handed (the reports stay pending: buffered "
            "channel): what the library publishes is what it puts on Input(), pending error reports must not make it skip later records.")
    assumptions = [
        "proto.Marshal / proto.Unmarshal of the two shipped message types are modelled (populated fields in field-number order; "
        "invalid UTF-8 in a string field is an error) and tied by byte equality of every payload on every run, not verified",
        "elements whose name the convertor's switch knows carry the Go type its getter reads (Msg.wellTyped); otherwise the Go "
        "code panics - observed and compared, outside the theorems",
        "record payloads are shorter than 2^32 bytes (frame_exact); uint32(len) would wrap beyond that",
        "header values are uint32, the exporter address an arbitrary Go string",
        "Go channels and the sarama producer's Input() channel deliver in order (one sender)",
    ]
    trusted = ["tools/protofacts (go/ast translator of struct tags and the convertor's switch -> Generated/Proto.lean, cross-checked "
               "at run time against the protobuf descriptor by the `schema` op)",
               "harness/cmd/harness-kafka (recording sarama.AsyncProducer, canonical rendering of the consumer's proto message)"]


# ----------------------------------------------------------------------------------------
# F6: regenerate Generated/Proto.lean. check.py imports this module before it builds the proofs,
# so the regeneration happens at import time (check.regen_facts() only knows tools/gofacts).

FACTS_ERROR = ""


def regen_protofacts():
    src = os.path.join(ROOT, "tools", "protofacts")
    out = os.path.join(check.BIN, "protofacts")
    os.makedirs(check.BIN, exist_ok=True)
    with check.Lock("protofacts"):
        if check.newer_than(src, out):
            r = check.run(["go", "build", "-o", out, "."], cwd=src, env=check.GOENV)
            if r.returncode != 0:
                return "protofacts does not build: " + r.stderr[-400:]
        r = check.run([out, check.REPO, os.path.dirname(PROTO_LEAN)])
        if r.returncode != 0:
            # the model must not be CHECKED against stale facts: the check is broken from here on (check.py reads
            # FACTS_ERROR: no obligation counts as discharged, the verdict is a violation). What remains to be done is the
            # SEARCH for a concrete failing input; for that alone the facts of the pinned tree
            # (tools/protofacts/reference/Proto.lean, committed) stand in, and the replay says so.
            ref = os.path.join(src, "reference", "Proto.lean")
            if os.path.exists(ref):
                shutil.copyfile(ref, PROTO_LEAN)
            elif os.path.exists(PROTO_LEAN):
                os.remove(PROTO_LEAN)
            return ("protofacts cannot translate the current tree (the search for a failing input below ran with the reference facts "
                    "of the pinned tree): " + r.stderr.strip()[-400:])
    return ""


FACTS_ERROR = regen_protofacts()


def build_harness():
    with check.Lock("harness"):
        hd = os.path.join(ROOT, "harness")
        shutil.copyfile(os.path.join(check.REPO, "go.sum"), os.path.join(hd, "go.sum"))
        ov = check.write_overlay()
        out = os.path.join(check.BIN, "harness-kafka")
        r = check.run(["go", "build", "-overlay", ov, "-o", out, "./cmd/harness-kafka"], cwd=hd, env=check.GOENV, timeout=1800)
        err = r.stderr
        return r.returncode == 0, err, out


# ----------------------------------------------------------------------------------------
# generator

def mapped_names():
    """element names of the convertor's switch (from the regenerated table; the reference list as a fall-back)"""
    try:
        txt = open(PROTO_LEAN).read()
        txt = txt[txt.index("def flowType1Map"):]
        txt = txt[:txt.index("]")]
        names = re.findall(r'\("([^"]+)", "[^"]+", "[^"]+"\)', txt)
        if names:
            return names
    except (OSError, ValueError):
        pass
    txt = open(os.path.join(check.LEAN, "IpfixModel", "Spec", "C19.lean")).read()
    txt = txt[txt.index("def refMap"):]
    return re.findall(r'\("([^"]+)", "[^"]+", "[^"]+"\)', txt[:txt.index("]")])


V4_ONLY = {"sourceIPv4Address", "destinationIPv4Address", "destinationClusterIPv4"}
V6_ONLY = {"sourceIPv6Address", "destinationIPv6Address", "destinationClusterIPv6"}

TOPICS = [b"AntreaTopic", b"flows", b"t", b"ipfix.flow-records_v2", b"topic with spaces".replace(b" ", b"\xc2\xa0"), bytes(range(0x21, 0x7f))]
ADDRS4 = [b"10.0.0.1", b"127.0.0.1", b"0.0.0.0", b"255.255.255.255", b"192.168.100.200"]
ADDRS6 = [b"::1", b"2001:db8::1", b"fe80::1%eth0", b"::", b"2001:db8:0:1:1:1:1:1", b"::ffff:10.0.0.1"]
ADDRS_ODD = [b"", b"exporter-7.example.org:4739", "éxporteur".encode(), b"a" * 300]

CP_BOUNDARY = [0x00, 0x01, 0x7f, 0x80, 0x7ff, 0x800, 0xd7ff, 0xe000, 0xfffd, 0xffff, 0x10000, 0x10ffff, 0x20ac, 0x1f600]


def rand_utf8(rng, n):
    """a valid UTF-8 string of about n bytes"""
    out = bytearray()
    mode = rng.random()
    while len(out) < n:
        if mode < 0.5:
            out.append(rng.choice(b"abcdefghijklmnopqrstuvwxyz-/.0123456789_ABC"))
            continue
        r = rng.random()
        if r < 0.3:
            cp = rng.choice(CP_BOUNDARY)
        elif r < 0.6:
            cp = rng.randint(0, 0x7f)
        elif r < 0.75:
            cp = rng.randint(0x80, 0x7ff)
        elif r < 0.9:
            cp = rng.randint(0x800, 0xffff)
        else:
            cp = rng.randint(0x10000, 0x10ffff)
        if 0xd800 <= cp <= 0xdfff:
            cp = 0xfffd
        out += chr(cp).encode("utf-8")
    return bytes(out)


STR_LENS = [0, 0, 0, 1, 2, 3, 5, 8, 12, 20]
STR_MID = [63, 64, 126, 127, 128, 129, 255, 256, 300]       # the length prefix becomes a 2-byte varint at 128
STR_LONG = [1000, 4000, 16383, 16384, 16385, 65535]

INVALID_UTF8 = [b"\xff", b"bad-\xff\xfe", b"\xc0\x80", b"\xc1\xbf", b"\xe0\x80\x80", b"\xe0\x9f\xbf", b"\xed\xa0\x80", b"\xed\xbf\xbf",
                b"\xf0\x80\x80\x80", b"\xf0\x8f\xbf\xbf", b"\xf4\x90\x80\x80", b"\xf5\x80\x80\x80", b"\xc2", b"abc\xe2\x82", b"\xf0\x9f\x98",
                b"\x80", b"\xbf", b"ok\xc2\x41", b"\xe2\x28\xa1", b"\xf8\x88\x80\x80\x80", b"\xfe", b"a\xf4\x8f\xbf", b"\xef\xbf"]
# valid neighbours of the above (must NOT be dropped)
VALID_EDGE = [b"\xc2\x80", b"\xdf\xbf", b"\xe0\xa0\x80", b"\xed\x9f\xbf", b"\xee\x80\x80", b"\xef\xbf\xbf", b"\xf0\x90\x80\x80",
              b"\xf4\x8f\xbf\xbf", b"\x00", b"\x7f", b"\xe1\x80\x80", b"\xec\xbf\xbf", b"\xf1\x80\x80\x80", b"\xf3\xbf\xbf\xbf"]

V6_SHAPES = [
    "0000:0000:0000:0000:0000:0000:0000:0000", "0000:0000:0000:0000:0000:0000:0000:0001", "0001:0000:0000:0000:0000:0000:0000:0000",
    "2001:0db8:0000:0000:0000:0000:0000:0001", "2001:0db8:0000:0001:0000:0000:0000:0001", "2001:0000:0000:0001:0000:0000:0001:0001",
    "0001:0000:0000:0002:0000:0000:0003:0000", "0001:0000:0002:0000:0003:0000:0004:0000", "0000:0001:0000:0000:0001:0000:0000:0000",
    "0000:0000:0001:0000:0000:0000:0001:0000", "ffff:ffff:ffff:ffff:ffff:ffff:ffff:ffff", "0000:0000:0000:0000:0000:ffff:0a00:0001",
    "0000:0000:0000:0000:0000:fffe:0a00:0001", "0000:0000:0000:0000:0001:ffff:0a00:0001", "0123:4567:89ab:cdef:0012:0003:a000:0b0c",
    "0001:0002:0003:0004:0005:0006:0000:0000", "0000:0000:0003:0004:0005:0006:0007:0008", "0001:0002:0003:0000:0005:0006:0007:0008",
]


def rand_ip6(rng):
    r = rng.random()
    if r < 0.35:
        return bytes.fromhex(rng.choice(V6_SHAPES).replace(":", ""))
    if r < 0.7:   # random groups with random zero runs
        g = [rng.choice([0, 0, 0, 1, 0x10, 0x100, 0x1000, 0xffff, rng.getrandbits(16)]) for _ in range(8)]
        return b"".join(x.to_bytes(2, "big") for x in g)
    if r < 0.8:
        return b"\0" * 10 + b"\xff\xff" + G.rand_bytes(rng, 4)
    if r < 0.83:
        # the 32 bits of an IPv4 address the streams also use, as an IPv6 prefix: another address
        return rng.choice([b"\0\0\0\0", b"\xff\xff\xff\xff", b"\x7f\0\0\1", b"\x0a\x00\x00\x09", b"\x64\x63\x0a\x01"]) + b"\0" * 12
    if r < 0.85:
        return G.rand_bytes(rng, 4)        # a 4-byte net.IP in an ipv6Address element
    return G.rand_bytes(rng, 16)


def rand_ip4(rng):
    r = rng.random()
    if r < 0.25:
        return rng.choice([b"\0\0\0\0", b"\xff\xff\xff\xff", b"\x7f\0\0\1", b"\x0a\x00\x00\x09", b"\x64\x63\x0a\x01", b"\xc8\x64\x09\x00"])
    b = G.rand_bytes(rng, 4)
    if rng.random() < 0.15:
        b = b"\0" * 10 + b"\xff\xff" + b    # 16-byte form of the same address
    return b


def value_for(rng, ie, long_ok):
    ty = ie.ty
    if ty in G.WIDTH:
        w = G.WIDTH[ty]
        r = rng.random()
        if r < 0.2:
            return "n0"
        if r < 0.35:
            return "n%d" % ((1 << (8 * w)) - 1)
        if r < 0.5:
            return "n%d" % rng.choice([v for v in (1, 127, 128, 255, 256, 16383, 16384, (1 << (8 * w - 1)), (1 << (8 * w)) - 2, 300, 2097151,
                                                   2097152, (1 << 35) - 1, 1 << 35, (1 << 63) - 1) if v < (1 << (8 * w))])
        return "n%d" % G.rand_num(rng, ty)
    if ty == 13:
        r = rng.random()
        if r < 0.06:
            return "x" + G.hexs(rng.choice(VALID_EDGE))
        n = rng.choice(STR_LENS) if r < 0.6 else (rng.randint(0, 40) if r < 0.92 else rng.choice(STR_MID))
        if long_ok and r > 0.97:
            n = rng.choice(STR_LONG)
        return "x" + G.hexs(rand_utf8(rng, n)[:65535] if n < 65535 else (b"z" * 65535))
    if ty == 18:
        return "x" + G.hexs(rand_ip4(rng))
    if ty == 19:
        return "x" + G.hexs(rand_ip6(rng))
    return G.well_typed_value(rng, ie, big_ok=False, maxlen=60)


def msg_token(kind, et, sq, od, addr, ies, recs):
    return "/".join([kind, str(et), str(sq), str(od), G.hexs(addr), ",".join(i.tok() for i in ies) or "-",
                     ";".join((",".join(r) or "=") for r in recs) or "-"])


U32 = [0, 1, 127, 128, 16384, 2 ** 31 - 1, 2 ** 31, 2 ** 32 - 2, 2 ** 32 - 1, 1700000000]


def rand_u32(rng):
    return rng.choice(U32) if rng.random() < 0.5 else rng.getrandbits(32)


class Gen:
    def __init__(self, rng):
        self.rng = rng
        reg = {}
        for ie in G.registry():
            reg.setdefault(ie.name, ie)
        self.names = [n for n in mapped_names() if n in reg]
        self.known = {n: reg[n] for n in self.names}
        mapped = set(self.names)
        ok_types = set(G.SUPPORTED)
        self.unknown = [ie for ie in G.registry() if ie.name not in mapped and ie.ty in ok_types and (ie.ty != 0 or ie.len == 65535)]
        self.unknown += [G.IE(55555, 1, 13, 65535, "userString"), G.IE(55555, 2, 4, 8, "userCounter"), G.IE(55555, 3, 18, 4, "userAddr"),
                         G.IE(55555, 4, 2, 2, "SourceTransportPort"), G.IE(55555, 5, 13, 65535, "srcPodName"),
                         G.IE(55555, 6, 3, 4, "TimeReceived"), G.IE(55555, 7, 13, 65535, "")]

    def elements(self, fam):
        rng = self.rng
        names = [n for n in self.names if not ((fam == 4 and n in V6_ONLY) or (fam == 6 and n in V4_ONLY))]
        r = rng.random()
        if r < 0.35:
            ies = [self.known[n] for n in names]                     # the full flow record
        elif r < 0.45:
            ies = []
        else:
            ies = [self.known[n] for n in names if rng.random() < rng.choice([0.2, 0.5, 0.8])]   # records missing some fields
        for _ in range(rng.choice([0, 0, 1, 2, 4])):                 # elements the schema does not know
            ies.insert(rng.randint(0, len(ies)), rng.choice(self.unknown))
        if ies and rng.random() < 0.15:                              # the same element twice: the later value wins
            ies.insert(rng.randint(0, len(ies)), rng.choice(ies))
        if rng.random() < 0.3:
            rng.shuffle(ies)
        return ies

    def message(self, fam, kind=None, nrec=None, long_ok=True):
        rng = self.rng
        kind = kind or ("D" if rng.random() < 0.72 else "T")
        f = fam if fam in (4, 6) else rng.choice([4, 6, 46])
        ies = self.elements(f)
        if nrec is None:
            nrec = rng.choice([0, 1, 1, 2, 2, 3, 4, 5, 6, 7, 8])
            if kind == "T":
                nrec = rng.choice([0, 1, 1, 2])
        recs = [[value_for(rng, ie, long_ok) for ie in ies] for _ in range(nrec)]
        r = rng.random()
        addr = rng.choice(ADDRS4 if f == 4 else ADDRS6) if r < 0.85 else rng.choice(ADDRS_ODD)
        return msg_token(kind, rand_u32(rng), rand_u32(rng), rand_u32(rng), addr, ies, recs), kind, nrec

    def stream(self, maxmsgs=20):
        rng = self.rng
        schema = rng.choice("12")
        succ = "1" if rng.random() < 0.15 else "0"
        topic = rng.choice(TOPICS)
        fam = rng.choice([4, 6, 46, 0])
        n = rng.choice([0, 1, 1, 2, 2, 3, 3, 4, 5, 6, 8, 10, 14, maxmsgs])
        long_ok = rng.random() < 0.03          # strings of 1000 .. 65535 bytes only in a few streams (size of the run)
        toks, nontrivial, nrecs = [], False, 0
        for _ in range(n):
            t, kind, nrec = self.message(fam, long_ok=long_ok)
            toks.append(t)
            nontrivial = nontrivial or (kind == "D" and nrec >= 2)
            nrecs += nrec if kind == "D" else 0
        op = " ".join(["kafka", schema, succ, G.hexs(topic)] + toks)
        return Case([op], "stream-s%s-fam%s" % (schema, fam or "any"), nontrivial, True), nrecs

    def nonutf8_stream(self, i):
        """dedicated group: some string fields are not valid UTF-8 (D14); neighbours must survive"""
        rng = self.rng
        schema = "12"[i % 2]
        strs = [self.known[n] for n in self.names if self.known[n].ty == 13]
        nums = [self.known[n] for n in ("sourceTransportPort", "packetTotalCount") if n in self.known]
        ies = [rng.choice(strs)] + nums
        if i % 5 == 4:
            ies = strs[:3] + nums
        bad = INVALID_UTF8[i % len(INVALID_UTF8)]
        recs = []
        for k in range(rng.choice([2, 3, 4, 6])):
            recs.append([("x" + G.hexs(rng.choice(VALID_EDGE) if ie.ty == 13 else b"")) if ie.ty == 13 else "n%d" % (k + 1) for ie in ies])
        pos = rng.randint(0, len(recs) - 1)
        recs[pos][0] = "x" + G.hexs(bad)
        if i % 7 == 6:
            recs[0][0] = "x" + G.hexs(rng.choice(INVALID_UTF8))
        addr = b"10.0.0.1"
        if i % 11 == 10:     # the exporter address is a proto3 string as well: every record of the message is lost
            addr = b"exp-\xff"
        toks = [msg_token("T", 1, 1, 1, b"10.0.0.1", ies, []), msg_token("D", 100 + i, i, 7, addr, ies, recs),
                msg_token("D", 101 + i, i + 1, 7, b"10.0.0.1", ies, [["x" + G.hexs(b"fine") if ie.ty == 13 else "n9" for ie in ies]] * 2)]
        return Case([" ".join(["kafka", schema, "0", G.hexs(b"flows")] + toks)], "nonutf8", True, True)

    def illtyped_stream(self, i):
        """outside the convertor's domain: a mapped NAME on an element of another type -> the Go getter panics"""
        rng = self.rng
        n = self.names[i % len(self.names)]
        good = self.known[n]
        ty = rng.choice([t for t in (1, 2, 3, 4, 13, 18, 0, 11, 7) if t != good.ty and not ({t, good.ty} <= {3, 14}) and not ({t, good.ty} <= {4, 15})
                         and not ({t, good.ty} <= {18, 19})])
        ln = G.WIDTH.get(ty, 65535 if ty in (13, 0) else (4 if ty == 18 else 1))
        bad = G.IE(good.ent, good.id, ty, ln, n)
        ies = [self.known["sourceTransportPort"], bad] if n != "sourceTransportPort" else [bad]
        recs = [[value_for(rng, ie, False) for ie in ies] for _ in range(2)]
        toks = [msg_token("D", 5, 6, 7, b"10.0.0.1", [self.known["octetDeltaCount"]], [["n5"]]), msg_token("D", 5, 6, 7, b"10.0.0.1", ies, recs)]
        return Case([" ".join(["kafka", "12"[i % 2], "0", G.hexs(b"flows")] + toks)], "ill-typed", False, False)


def gen_batches(rng, tier):
    g = Gen(rng)
    cases = [Case(["schema 1"], "schema", False, True), Case(["schema 2"], "schema", False, True)]
    # fixed corner streams
    full4 = [g.known[n] for n in g.names if n not in V6_ONLY]
    full6 = [g.known[n] for n in g.names if n not in V4_ONLY]
    zero = lambda ies: ["n0" if ie.ty in G.WIDTH else ("x-" if ie.ty == 13 else ("x00000000" if ie.ty == 18 else "x" + "00" * 16)) for ie in ies]
    maxv = lambda ies: ["n%d" % ((1 << (8 * G.WIDTH[ie.ty])) - 1) if ie.ty in G.WIDTH else ("x" + G.hexs(b"\xf4\x8f\xbf\xbf" * 5) if ie.ty == 13 else
                        ("xffffffff" if ie.ty == 18 else "x" + "ff" * 16)) for ie in ies]
    for s in "12":
        for ies in (full4, full6):
            toks = [msg_token("T", 0, 0, 0, b"", ies, []), msg_token("D", 0, 0, 0, b"", ies, [zero(ies)] * 3),
                    msg_token("D", 2 ** 32 - 1, 2 ** 32 - 1, 2 ** 32 - 1, b"255.255.255.255", ies, [maxv(ies), zero(ies), maxv(ies)]),
                    msg_token("D", 1, 2, 3, b"::1", [], [[], []]), msg_token("D", 1, 2, 3, b"::1", ies, []),
                    # records whose flow message is ALL proto3 defaults (zero header fields, no address, every value zero or
                    # empty, no IP element): the payload is the 4-byte length prefix alone and must still be published and read back
                    msg_token("D", 0, 0, 0, b"", [], [[], []]),
                    msg_token("D", 0, 0, 0, b"", [ie for ie in ies if ie.ty not in (18, 19)], [zero([ie for ie in ies if ie.ty not in (18, 19)])] * 2),
                    # ... and ordinary records AFTER them: what was queued for the empty ones must not change any more
                    msg_token("D", 7, 8, 9, b"10.0.0.1", ies, [maxv(ies), zero(ies)]),
                    msg_token("D", 0, 0, 0, b"", [], [[]]), msg_token("D", 1, 1, 1, b"::1", ies, [maxv(ies)])]
            cases.append(Case([" ".join(["kafka", s, "0", G.hexs(b"AntreaTopic")] + toks)], "corner", True, True))
        cases.append(Case(["kafka %s 0 %s" % (s, G.hexs(b"t"))], "corner", False, True))          # the channel is closed at once
    # every IPv6 text shape, one record each, in order
    ie6 = g.known["sourceIPv6Address"]
    cases.append(Case([" ".join(["kafka", "1", "0", G.hexs(b"t"), msg_token("D", 1, 1, 1, b"::1", [ie6], [["x" + sh.replace(":", "")] for sh in V6_SHAPES])])],
                      "ipv6-shapes", True, True))
    for i in range(46 if tier == "quick" else 230):
        cases.append(g.nonutf8_stream(i))
    for i in range(62 if tier == "quick" else 310):
        cases.append(g.illtyped_stream(i))
    yield cases
    n_streams = 5000 if tier == "quick" else 100000
    batch = 5000
    for b in range(0, n_streams, batch):
        yield [g.stream()[0] for _ in range(min(batch, n_streams - b))]


def gen_cases(rng, tier):
    return [c for b in gen_batches(rng, tier) for c in b]


def run(ctx):
    rng = random.Random(ctx.seed * 1000003 + 19)
    dist = G.Counter()
    seen = set()
    disagreements, failures, samples = [], [], []
    total = 0
    for cases in gen_batches(rng, ctx.tier):       # batches bound the memory of a thorough run
        base = total
        total += len(cases)
        impl, model = ctx.both(cases, shards=ctx.cores)
        chk_lines, chk_idx = [], []
        disagree_at = {}
        for ci, c in enumerate(cases):
            dist.add(c.label)
            if c.nontrivial:
                seen.add(G.case_hash(c.ops))
            for oi, op in enumerate(c.ops):
                i, m = impl[ci][oi] or "missing", model[ci][oi] or "missing"
                head = i.split(" ")
                dist.add("outcome:" + head[0])
                if head[0] == "ok" and op.startswith("kafka "):
                    dist.add("payloads", int(head[1]))
                    dist.add("messages", len(op.split(" ")) - 4)
                if i != m:
                    d = {"case": base + ci, "ops": [o[:4000] for o in c.ops], "impl": i[:600], "model": m[:600], "label": c.label,
                         "in_domain": c.in_domain, "explained_by_predicate_failure": False}
                    disagreements.append(d)
                    disagree_at[ci] = d
                if op.startswith("kafka "):
                    chk_lines.append("chk %s | %s" % (op, i))
                    chk_idx.append((ci, oi))
        verdicts = ctx.check_pred(chk_lines, shards=ctx.cores)
        for (ci, oi), v in zip(chk_idx, verdicts):
            v = v or "missing"
            dist.add("predicate:" + v.split(" @")[0])
            c = cases[ci]
            if v == "holds" or (v == "na" and not c.in_domain):
                continue
            why = v.split(" @")[0].replace("fails ", "")
            failures.append({"signature": "C19:%s" % why.replace(" ", "-"), "ops": c.ops, "impl": (impl[ci][oi] or "")[:600],
                             "model": (model[ci][oi] or "")[:600], "predicate": {"name": "Ipfix.C19.holdsOn", "value": v}, "label": c.label,
                             "note": "Spec.C19.holdsOn on the implementation's payloads: " + v})
            if ci in disagree_at:
                disagree_at[ci]["explained_by_predicate_failure"] = True
        for i in (0, 2, len(cases) // 2):
            if len(samples) < 5 and i < len(cases):
                samples.append({"ops": [o[:300] for o in cases[i].ops], "impl": [(o or "")[:300] for o in impl[i]], "label": cases[i].label})
    ood = sum(1 for d in disagreements if not d["in_domain"])
    # the known non-UTF-8 signature last, so that the 50 reported slots show every other kind first
    failures.sort(key=lambda f: (f["signature"] == "C19:non-utf8-string-dropped", f["signature"]))
    notes = ["one op = one whole stream through one PublishIPFIXMessages call; %d payloads over %d messages compared byte for byte" % (
        dist.get("payloads", 0), dist.get("messages", 0)),
        "Generated/Proto.lean regenerated by tools/protofacts at import of gen/c19.py" + (" FAILED: " + FACTS_ERROR if FACTS_ERROR else "")]
    ref = os.path.join(ROOT, "tools", "protofacts", "reference", "Proto.lean")
    if not FACTS_ERROR and os.path.exists(ref) and os.path.exists(PROTO_LEAN):
        same = open(ref).read() == open(PROTO_LEAN).read()
        notes.append("reference facts (used only to go on searching when protofacts refuses a tree) are %s the regenerated ones" % (
            "identical to" if same else "DIFFERENT from"))
    if os.environ.get("VERIF_MUTANT_OVERLAY"):
        notes.append("VERIF_MUTANT_OVERLAY in effect: " + ",".join(sorted(json.loads(os.environ["VERIF_MUTANT_OVERLAY"]))))
    return {"evaluations": total, "distinct_nontrivial": len(seen), "samples": samples, "distribution": dict(dist),
            "disagreements": disagreements[:50], "predicate_failures": failures[:50], "out_of_domain_disagreements": ood,
            "exhaustive": False, "notes": notes}
