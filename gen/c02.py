"""C02 - exporter output is well-formed RFC 7011 as judged by an independent decoder."""
import random

from check import Case
from gen import common as G
from gen import expcommon as X
from gen.simple import run_simple


class SPEC:
    rule = ("engine exp: a real ExportingProcess on an in-memory net.Conn; sessions of template and data SendSet calls (templates of 1..12 "
            "elements from the IANA / 29305 / 56506 registries and user-registered enterprises incl. ids 32766/32767, all three add paths, "
            "1..20 records, values from the C15 generator). The bytes written are (a) compared with the model's bytes and (b) parsed by the "
            "independent Lean parser Ipfix.ExpSpec.parseMessage / parseTemplateRecords / decodeRecords and compared with what was handed to "
            "SendSet. Thorough adds real loopback TCP and UDP sockets. Non-trivial = a data message with >= 2 fields incl. a variable-length "
            "or enterprise element; distinct by hash of the op list.")
    assumptions = ["element ids < 32768 (an id >= 32768 collides with the enterprise bit; stated guard of wire_template)"]
    trusted = []


def nontrivial(ops):
    for o in ops:
        if o.startswith("exp send") and " d " in o and o.count("=") >= 2 and (":65535:" in o or "56506:" in o or "29305:" in o or "55555:" in o):
            return True
    return False


def run(ctx):
    rng = random.Random(ctx.seed * 1000003 + 2)
    sup = G.registry_supported()
    cases = []
    n = 1500 if ctx.tier == "quick" else 60000
    for _ in range(n):
        ops, _ = X.valid_session(rng, sup, rng.randint(2, 10))
        cases.append(Case(ops, "valid-session", nontrivial(ops), True))
    # messages around the 65535-byte limit: every size from 65519 to 65540 (the header length field
    # must equal the bytes sent, or the send must be refused), by record count and by one long string
    s_ie = X.var_ie()
    u64 = [ie for ie in sup if ie.ty == 4][0]
    for total in range(65519, 65541):
        payload = total - 16 - 4 - 3
        ops = ["exp new 3", X.send_template(rng, 500, [s_ie]),
               "exp send %s d 500 500@%s=x%s" % (rng.choice(X.PATHS), s_ie.tok(), G.hexs(G.rand_bytes(rng, payload))),
               X.send_data(rng, 500, [s_ie], 1, maxlen=20)]
        cases.append(Case(ops, "size-boundary", True, True))
    for nrec in (8187, 8188, 8189, 8190, 8191):
        recs = ";".join("600@%s=n%d" % (u64.tok(), rng.getrandbits(64)) for _ in range(nrec))
        ops = ["exp new 3", X.send_template(rng, 600, [u64]), "exp send %s d 600 %s" % (rng.choice(X.PATHS), recs),
               X.send_data(rng, 600, [u64], 2)]
        cases.append(Case(ops, "size-boundary-records", True, True))
    res = run_simple(ctx, cases, "C02", chk_filter=lambda op: True, stateful_chk=True,
                     signature=lambda c, oi, v, agrees: "C02:%s" % " ".join(v.split(" ")[:2]),
                     # a refused oversize data send has already advanced the counter (C08 failed_send_bumps_seq,
                     # outside C08's and C02's statements): sequence numbers after a refusal are not judged here
                     verdict_filter=lambda v: "holds" if v.startswith("fails c08:sequence") else v)
    res["evaluations"] = sum(1 for c in cases for o in c.ops if o.startswith("exp send"))
    res["notes"].append("%d sessions; evaluations counts SendSet calls" % len(cases))
    return res
