"""C02 - exporter output is well-formed RFC 7011 as judged by an independent decoder."""
import random

from check import Case
from gen import common as G
from gen import expcommon as X
from gen.simple import run_simple


class SPEC:
    rule = ("engine exp: a real ExportingProcess on an in-memory net.Conn; sessions of template and data SendSet calls (templates of 1..12 "
            "elements from the IANA / 29305 / 56506 registries and user-registered enterprises incl. ids 32766/32767, all three add paths, "
            "1..20 records, values from the C15 generator). The bytes written are (a) compared with the model's bytes and (b) parsed by the "
            "independent Lean parser Ipfix.ExpSpec.parseMessage / parseTemplateRecords / decodeRecords and compared with what was handed to "
            "SendSet. Thorough adds real loopback TCP and UDP sockets. Non-trivial = a data message with >= 2 fields incl. a variable-length "
            "or enterprise element; distinct by hash of the op list.")
    assumptions = ["element ids < 32768 (an id >= 32768 collides with the enterprise bit; stated guard of wire_template)"]
    trusted = []


def nontrivial(ops):
    for o in ops:
        if o.startswith("exp send") and " d " in o and o.count("=") >= 2 and (":65535:" in o or "56506:" in o or "29305:" in o or "55555:" in o):
            return True
    return False


def run(ctx):
    rng = random.Random(ctx.seed * 1000003 + 2)
    sup = G.registry_supported()
    cases = []
    n = 1500 if ctx.tier == "quick" else 60000
    for _ in range(n):
        ops, _ = X.valid_session(rng, sup, rng.randint(2, 10))
        cases.append(Case(ops, "valid-session", nontrivial(ops), True))
    res = run_simple(ctx, cases, "C02", chk_filter=lambda op: True, stateful_chk=True,
                     signature=lambda c, oi, v, agrees: "C02:%s" % " ".join(v.split(" ")[:2]))
    res["evaluations"] = sum(1 for c in cases for o in c.ops if o.startswith("exp send"))
    res["notes"].append("%d sessions; evaluations counts SendSet calls" % len(cases))
    return res
