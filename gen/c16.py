"""C16 - set and record builders: length bookkeeping, equivalence of add paths, reuse."""
import random

from check import Case
from gen import common as G
from gen.simple import run_simple


class SPEC:
    rule = ("engine bld (public API only): op sequences of length 1..60 over {PrepareSet(template|data, id), AddRecord, "
            "AddRecordWithExtraElements(k), AddRecordV2 with element lists drawn from the registry (well-typed values; empty values "
            "for template records), UpdateLenInHeader, ResetSet, observe}. Each sequence is run (a) on a long-lived set with a random "
            "prefix before a reset, (b) on a brand-new set, (c) with every add replaced by each of the other two add paths; all must "
            "give the same observations (type, length, header, record buffers, CreateIPFIXMsg bytes); the convenience constructors MakeTemplateSet / MakeDataSet (`bld make`) replace the set "
            "under construction by a new one-record set; a prepare with set type Undefined "
            "(refused) may come anywhere in a sequence and must change nothing - such cases are run again without it and compared; the list of records taken out of the "
            "set (GetRecords) right before a reset is kept by the harness and must read the same at every later observation (a new set "
            "shares nothing with the old message, so a reset one must not either). Non-trivial = at least one reset "
            "followed by adds; distinct by hash.")
    assumptions = ["element values are not mutated after they were added (the cached data-record buffer would go stale)"]
    trusted = []


ZERO = {11: "f", 12: "x-", 13: "x-", 18: "x-", 19: "x-", 0: "x-"}


NEG_ZERO = {9: "n2147483648", 10: "n9223372036854775808"}   # float32 / float64 -0.0: `value == 0` holds in Go


def zero_value(ie, rng=None):
    if rng is not None and ie.ty in NEG_ZERO and rng.random() < 0.3:
        return NEG_ZERO[ie.ty]
    return ZERO.get(ie.ty, "n0")


def odd(rng, ie):
    """a user-made element ("arbitrary element lists"): a string element that DECLARES a fixed length; the
    library encodes it length-prefixed all the same (StringInfoElement.GetLength ignores the declaration)"""
    s13 = G.by_type()[13][0]
    return G.IE(55555, rng.choice([1, 200, 32767]), 13, rng.choice([1, 2, 16, 255, 65534]), "user" + s13.name[:12])


def elems_token(rng, ies, data):
    if not ies:
        return "-"
    return ",".join("%s=%s" % (ie.tok(), G.well_typed_value(rng, ie, big_ok=False, maxlen=300) if data else zero_value(ie, rng)) for ie in ies)


def body_ops(rng, n, sup):
    """a well-formed op list (prepare precedes adds); returns ops with PATH placeholders"""
    ops = []
    ty = rng.choice("td")
    ops.append("bld prep %s %d" % (ty, rng.choice([256, 257, 65535, 2])))
    for _ in range(n):
        r = rng.random()
        if r < 0.55:
            k = rng.choice([0, 1, 1, 2, 3, 5, 12])
            ies = [rng.choice(sup) for _ in range(k)]
            if rng.random() < 0.2:
                ies = [odd(rng, ie) if rng.random() < 0.4 else ie for ie in ies]
            tok = elems_token(rng, ies, ty == "d")
            if ty == "t" and k >= 2 and rng.random() < 0.15:
                # an element with a value in a template record: AddRecord refuses it part-way; the set must stay as it was
                j = rng.randrange(1, k)
                parts = tok.split(",")
                parts[j] = "%s=%s" % (ies[j].tok(), G.well_typed_value(rng, ies[j], big_ok=False, maxlen=20))
                tok = ",".join(parts)
            ops.append("bld add PATH %d %d %s" % (rng.choice([0, 1, 4]), rng.choice([256, 257, 300]), tok))
        elif r < 0.59:
            # the convenience constructors MakeTemplateSet / MakeDataSet: a new set with one record replaces the current one
            ty = rng.choice("td")
            ies = [rng.choice(sup) for _ in range(rng.choice([0, 1, 2, 5]))]
            ops.append("bld make %s %d %s" % (ty, rng.choice([256, 257, 65535]), elems_token(rng, ies, ty == "d")))
        elif r < 0.65:
            ops.append("bld upd")
        elif r < 0.83:
            ops.append("bld obs")
        elif r < 0.85:
            # a REFUSED prepare (set type Undefined) in the middle of the work: the set must stay what it was
            ops.append("bld prep u %d" % rng.choice([256, 257, 2]))
        elif r < 0.93:
            ty = rng.choice("td")
            ops.append("bld prep %s %d" % (ty, rng.choice([256, 257, 300])))
        else:
            ops.append("bld reset")
            ty = rng.choice("td")
            ops.append("bld prep %s %d" % (ty, rng.choice([256, 257])))
    ops += ["bld upd", "bld obs"]
    return ops


def with_paths(ops, rng, fixed=None):
    return [o.replace("PATH", fixed if fixed is not None else rng.choice("012")) for o in ops]


def gen_cases(rng, tier):
    sup = G.registry_supported()
    cases = []
    n = 2500 if tier == "quick" else 120000
    for _ in range(n):
        body = body_ops(rng, rng.randint(1, 30), sup)
        prefix = body_ops(rng, rng.randint(0, 12), sup)
        seed = rng.getrandbits(32)
        # (a) long-lived object: prefix, reset, body      (b) brand-new object: body
        a = ["bld new"] + with_paths(prefix, random.Random(seed)) + ["bld reset"] + with_paths(body, random.Random(seed + 1))
        b = ["bld new"] + with_paths(body, random.Random(seed + 1))
        cases.append(Case(a, "reused", True, True))
        cases.append(Case(b, "fresh", any(o == "bld reset" for o in body), True))
        # (c) the three add paths
        for p in "012":
            cases.append(Case(["bld new"] + with_paths(body, None, p), "path" + p, False, True))
    # size boundary: sets whose message is 65519..65540 bytes
    bt = G.by_type()
    s = bt[13][0]
    for total in range(65519, 65541):
        payload = total - 16 - 4 - 3
        ops = ["bld new", "bld prep d 256", "bld add %s 0 256 %s=x%s" % (rng.choice("012"), s.tok(), G.hexs(G.rand_bytes(rng, payload))), "bld upd", "bld obs"]
        cases.append(Case(ops, "size-boundary", False, True))
    # user-made elements whose declared length is SHORTER than their data type's width (no reduced-size
    # encoding in this library): outside the model's domain (the model calls them not encodable), but
    # "arbitrary element lists" all the same - the set must stay consistent and nothing may crash
    # (before the fix: index-out-of-range panic in dataRecord.GetBuffer, finding D16)
    fixed = [ie for ie in sup if ie.ty in G.WIDTH or ie.ty in (11, 12, 18, 19)]
    for _ in range(60 if tier == "quick" else 2000):
        ies = []
        for _ in range(rng.randint(1, 4)):
            ie = rng.choice(fixed)
            if rng.random() < 0.6:
                ie = G.IE(55555, rng.choice([1, 200, 32767]), ie.ty, rng.randrange(0, ie.len), "short" + ie.name[:12])
            ies.append(ie)
        vals = ",".join("%s=%s" % (ie.tok(), G.well_typed_value(rng, G.IE(ie.ent, ie.id, ie.ty, {11: 1, 12: 6, 18: 4, 19: 16}.get(ie.ty, G.WIDTH.get(ie.ty, 1)), ie.name), big_ok=False, maxlen=20)) for ie in ies)
        ops = ["bld new", "bld prep d 256", "bld add %s 1 256 %s" % (rng.choice("012"), vals), "bld upd", "bld obs"]
        cases.append(Case(ops, "short-declared-length", True, False, judge=True))
    # outside the property's quantifier: adds without a prepare (new vs reset differ by design of the code)
    for _ in range(50):
        ie = rng.choice(sup)
        cases.append(Case(["bld new", "bld add 0 0 256 %s=%s" % (ie.tok(), zero_value(ie)), "bld obs"], "no-prepare-new", False, False))
        cases.append(Case(["bld new", "bld reset", "bld add 0 0 256 %s=%s" % (ie.tok(), zero_value(ie)), "bld obs"], "no-prepare-reset", False, False))
    return cases


def run(ctx):
    rng = random.Random(ctx.seed * 1000003 + 16)
    cases = gen_cases(rng, ctx.tier)
    res = run_simple(ctx, cases, "C16", chk_filter=lambda op: op == "bld obs")
    # relational part on the IMPLEMENTATION's own observations: (a) vs (b), and the three paths
    from check import exec_cases
    impl = exec_cases(ctx.harness, cases, shards=min(8, ctx.cores))
    fails = []

    def obs_of(ci):
        return [o for op, o in zip(cases[ci].ops, impl[ci]) if op == "bld obs"]
    i = 0
    while i < len(cases) and cases[i].label == "reused":
        a, b, p0, p1, p2 = i, i + 1, i + 2, i + 3, i + 4
        nb = len(obs_of(b))
        if obs_of(a)[-nb:] != obs_of(b):
            fails.append({"signature": "C16:reset-not-like-new", "ops": cases[a].ops, "impl": " / ".join(obs_of(a)[-nb:])[:600], "model": " / ".join(obs_of(b))[:600],
                          "predicate": {"name": "reset_like_new (implementation vs implementation)", "value": "fails"}})
        refused = any(o == "err" for ci_ in (p0, p1, p2) for op, o in zip(cases[ci_].ops, impl[ci_]) if op.startswith("bld add"))
        # a template record with element VALUES is refused by AddRecord but not by AddRecordV2 (no
        # check there): outside "the three ways produce identical sets", which is about adds that succeed
        if not refused and not (obs_of(p0) == obs_of(p1) == obs_of(p2)):
            fails.append({"signature": "C16:add-paths-differ", "ops": cases[p0].ops, "impl": " / ".join(obs_of(p0))[:300] + " // " + " / ".join(obs_of(p2))[:300], "model": "",
                          "predicate": {"name": "add_paths_equiv (implementation vs implementation)", "value": "fails"}})
        i += 5
    # a REFUSED operation leaves the set as it was: every fresh case that contains refused prepares is run again without
    # them; the observations must be the same (the property speaks of "any sequence of prepare/add/reset operations":
    # a refused prepare is not one that took place)
    withu = [ci for ci, c in enumerate(cases) if c.label == "fresh" and any(o.startswith("bld prep u ") for o in c.ops)]
    if withu:
        stripped = [Case([o for o in cases[ci].ops if not o.startswith("bld prep u ")], "fresh-without-refused-prepare", False, True) for ci in withu]
        impl2 = exec_cases(ctx.harness, stripped, shards=min(8, ctx.cores))
        for ci, c2, o2 in zip(withu, stripped, impl2):
            refused_all = all(o == "err" for op, o in zip(cases[ci].ops, impl[ci]) if op.startswith("bld prep u "))
            obs2 = [o for op, o in zip(c2.ops, o2) if op == "bld obs"]
            if not refused_all or obs_of(ci) != obs2:
                fails.append({"signature": "C16:refused-prepare-changed-the-set", "ops": cases[ci].ops, "impl": " / ".join(obs_of(ci))[:300] + " // " + " / ".join(obs2)[:300],
                              "model": "", "predicate": {"name": "refused_prepare_is_no_operation (implementation vs implementation)", "value": "fails"}})
        res["distribution"]["fresh cases re-run without their refused prepares"] = len(withu)
    res["predicate_failures"] = fails[:20] + res["predicate_failures"]
    res["notes"].append("reset-vs-new and the three add paths are also compared on the implementation's own observations")
    return res
