"""C01 - end-to-end fidelity: what an exporter is given is what a collector delivers."""
import random
import subprocess

from check import Case
from gen import common as G
from gen import expcommon as X
from gen.simple import run_simple


class SPEC:
    rule = ("engine e2e: a real ExportingProcess connected to a real CollectingProcess over tcp, udp, tls and dtls (certificates minted "
            "at run time) x {IPv4, IPv6 listener when the host has ::1}; sessions of a template (1..12 registry elements of supported "
            "types, all three registries) followed by data messages of 1..n records with values from the C15 generator - variable-length "
            "boundaries 0/254/255/256 always in the mix, one maximal-payload record per tcp session, extreme numeric and float patterns. "
            "In three sessions out of ten the template is sent a second time mid-session, followed by more data; 8 % of the tcp / udp sessions "
            "also send ONE set of 1000..3000 small records (around and beyond 1024). Sends are lock-step (next message only after the previous one was delivered), except for one BURST in about a quarter of the "
            "sessions (at least half of the dtls ones): 3..6 small data sets of 1..3 records with distinct values, most of them of one "
            "size, handed to SendSet back-to-back while nobody reads GetMsgChan(); only then are the deliveries collected. What GetMsgChan() "
            "delivers is compared with the model's prediction and judged by Ipfix chkE2E directly against what was handed to SendSet "
            "(burst: over tcp/tls every message, in order; over udp/dtls a datagram may be lost, but what is delivered is a subsequence of "
            "what was sent - found by sequence number - and equal to it). Non-trivial = >= 2 fields incl. one variable-length or enterprise "
            "element; distinct by hash.")
    assumptions = ["transports are the identity on messages once established (TCP framing: C11; UDP one datagram per message; TLS/DTLS trusted)",
                   "a burst over udp/dtls may lose datagrams on the loopback (messages of a burst are < 1200 bytes to make that unlikely); loss alone is not judged",
                   "ordinary UDP messages are kept <= 60000 bytes (some sessions add ONE datagram of the maximal payload: 65507 bytes over IPv4, 65527 over IPv6) and DTLS messages <= 8000 bytes (record size limits of the transport)"]
    trusted = ["crypto/tls, pion/dtls, the loopback interface"]


def has_v6(harness):
    try:
        out = subprocess.run([harness], input="e2e open tcp 6 strict 1\ne2e close\n", stdout=subprocess.PIPE, text=True, timeout=30).stdout
        return out.splitlines()[0] == "ok"
    except Exception:
        return False


BOUNDARY = [0, 1, 253, 254, 255, 256, 300]


BURST_MAX = 1200     # bytes of one message of a burst


def burst(rng, ies, tid):
    """one `e2e burst` op: 3..6 data sets of 1..3 records; every value that can differ differs from set to set; in
    most bursts all messages have one size (same record count, same lengths of the variable-length values), so that
    bytes of one message read as another message still decode"""
    import gen.ipfix as W
    k = rng.choice([3, 3, 4, 5, 6, 6])
    uniform = rng.random() < 0.75
    for attempt in range(6):
        maxlen = [60, 30, 12, 4, 1, 0][attempt]
        nrecs = [rng.randint(1, 3)] * k if uniform else [rng.randint(1, 3) for _ in range(k)]
        shape = [[rng.choice([0, 1, 2, 7, 20, maxlen]) if maxlen else 0 for _ in ies] for _ in range(3)]
        sets, seen, ok = [], set(), True
        for i in range(k):
            recs = []
            for r in range(nrecs[i]):
                for _ in range(20):
                    vals = []
                    for j, ie in enumerate(ies):
                        if ie.len == 65535:
                            n = min(shape[r][j], maxlen) if uniform else rng.choice([0, 1, 5, maxlen])
                            if ie.ty == 13 and rng.random() < 0.5:
                                v = "x" + G.hexs(bytes(rng.choice(b"abcdefghijklmnopqrstuvwxyz0123456789") for _ in range(n)))
                            else:
                                v = "x" + G.hexs(G.rand_bytes(rng, n))
                        else:
                            v = G.well_typed_value(rng, ie, big_ok=False, maxlen=maxlen)
                        vals.append(v)
                    key = W.record_bytes(ies, vals)
                    if key not in seen:
                        break
                seen.add(key)
                recs.append(vals)
            size = 16 + 4 + sum(len(W.record_bytes(ies, v)) for v in recs)
            if size >= BURST_MAX:
                ok = False
                break
            sets.append(";".join("%d@%s" % (tid, ",".join("%s=%s" % (ie.tok(), v) for ie, v in zip(ies, vals))) for vals in recs))
        if ok:
            return "e2e burst %s %d %s" % (rng.choice(X.PATHS), tid, " ".join(sets))
    return None


def session(rng, sup, transport, fam, limit, with_burst=False):
    ies = X.pick_ies(rng, sup, user_ok=False, maxn=12)
    if rng.random() < 0.6 and not any(ie.len == 65535 for ie in ies):
        ies.append(rng.choice(G.by_type()[13]))
    tid = rng.choice([256, 257, 4000, 65535])
    ops = ["e2e open %s %s %s %d" % (transport, fam, rng.choice(["strict", "keep", "drop"]), rng.choice([0, 1, 7, 0xffffffff, rng.getrandbits(32)]))]
    ops.append("e2e send %s t %d %d@%s" % (rng.choice(X.PATHS), tid, tid, X.elems(rng, ies, False)))
    var = [ie for ie in ies if ie.len == 65535]
    for _ in range(rng.randint(1, 5)):
        nrec = rng.choice([1, 1, 2, 3, 8])
        recs = []
        for _ in range(nrec):
            vals = []
            for ie in ies:
                if ie.len == 65535 and rng.random() < 0.5:
                    vals.append("%s=x%s" % (ie.tok(), G.hexs(G.rand_bytes(rng, rng.choice(BOUNDARY)))))
                else:
                    vals.append("%s=%s" % (ie.tok(), G.well_typed_value(rng, ie, big_ok=False, maxlen=120)))
            recs.append("%d@%s" % (tid, ",".join(vals)))
        op = "e2e send %s d %d %s" % (rng.choice(X.PATHS), tid, ";".join(recs))
        if len(op) // 2 < limit:
            ops.append(op)
    if rng.random() < 0.3:
        # the application sends its template AGAIN in the middle of the session (an exporter may do that on any transport,
        # and must over UDP): it has to go out and be delivered like the first time, and the data after it as well
        ops.append("e2e send %s t %d %d@%s" % (rng.choice(X.PATHS), tid, tid, X.elems(rng, ies, False)))
        ops.append("e2e send %s d %d %d@%s" % (rng.choice(X.PATHS), tid, tid, X.elems(rng, ies, True, maxlen=40)))
    if transport in ("tcp", "udp") and rng.random() < 0.08:
        # MANY small records in one set (1000..3000: more buffers than one vectored write takes, far more than any test
        # sends) - one message, every record delivered, in order
        small = [ie for ie in ies if ie.len != 65535 and ie.len <= 4][:2] or [rng.choice(G.by_type()[1])]
        tid2 = tid + 1 if tid < 65535 else 300
        ops.append("e2e send %s t %d %d@%s" % (rng.choice(X.PATHS), tid2, tid2, X.elems(rng, small, False)))
        width = sum(ie.len for ie in small)
        nrec = min(rng.choice([1000, 1023, 1024, 1025, 1500, 3000]), (limit - 40) // width)
        recs = ";".join("%d@%s" % (tid2, ",".join("%s=%s" % (ie.tok(), G.well_typed_value(rng, ie, big_ok=False, maxlen=4)) for ie in small)) for _ in range(nrec))
        ops.append("e2e send %s d %d %s" % (rng.choice(X.PATHS), tid2, recs))
    if with_burst:
        b = burst(rng, ies, tid)
        if b is not None:
            ops.append(b)
            if rng.random() < 0.3:
                # and the session goes on in lock-step
                ops.append("e2e send %s d %d %d@%s" % (rng.choice(X.PATHS), tid, tid, X.elems(rng, ies, True, maxlen=40)))
    # the largest message that fits: 65535 bytes on a stream, a whole datagram over UDP (65507 bytes of payload
    # over IPv4, 65527 over IPv6 - the collector's buffer must take both)
    full = {"tcp": 65535, "tls": 65535, "udp": 65527 if fam == "6" else 65507}.get(transport)
    if var and full is not None and rng.random() < (0.5 if transport != "udp" else 0.12):
        # one record that fills the message: the largest variable-length payload that fits
        fixed = []
        size = 16 + 4
        jmax = next(j for j, ie in enumerate(ies) if ie is var[0])   # the same element may occur twice in a template
        for j, ie in enumerate(ies):
            if j == jmax:
                fixed.append(None)
            else:
                v = G.well_typed_value(rng, ie, big_ok=False, maxlen=10)
                fixed.append("%s=%s" % (ie.tok(), v))
                import gen.ipfix as W
                size += len(W.enc_value(ie, v))
        payload = full - size - 3
        vals = [f if f is not None else "%s=x%s" % (var[0].tok(), G.hexs(G.rand_bytes(rng, payload))) for f in fixed]
        ops.append("e2e send %s d %d %d@%s" % (rng.choice(X.PATHS), tid, tid, ",".join(vals)))
    ops.append("e2e close")
    nt = len(ies) >= 2 and any(ie.len == 65535 or ie.ent != 0 for ie in ies)
    return Case(ops, "%s%s" % (transport, fam), nt, True)


def relation(op, impl, model):
    """implementation line vs model line: equal, except that a burst may lose datagrams (the model's transports lose
    nothing): same SendSet results, and the delivered messages are a subsequence of the model's. Whether a loss is
    acceptable (udp/dtls) or not (tcp/tls) is for the chk line to say."""
    if impl == model:
        return True
    if not op.startswith("e2e burst ") or not impl.startswith("burst ") or not model.startswith("burst "):
        return False
    i, m = impl.split(" ", 2), model.split(" ", 2)
    if len(i) < 3 or len(m) < 3 or i[1] != m[1]:
        return False
    got = [] if i[2] == "none" else i[2].split(" | ")
    it = iter([] if m[2] == "none" else m[2].split(" | "))
    return all(any(x == y for y in it) for x in got)


def run(ctx):
    rng = random.Random(ctx.seed * 1000003 + 1)
    sup = G.registry_supported()
    fams = ["4"] + (["6"] if has_v6(ctx.harness) else [])
    plan = {"quick": {"tcp": 700, "udp": 700, "tls": 40, "dtls": 24}, "thorough": {"tcp": 4000, "udp": 4000, "tls": 300, "dtls": 120}}[ctx.tier]
    limits = {"tcp": 65535, "tls": 65535, "udp": 60000, "dtls": 8000}
    cases = []
    for tr, n in plan.items():
        for k in range(n):
            # a quarter of the sessions carry a burst; of the few dtls sessions, every second one and a quarter of the rest
            wb = rng.random() < 0.25 or (tr == "dtls" and k % 4 < 2)
            cases.append(session(rng, sup, tr, fams[k % len(fams)], limits[tr], wb))
    rng.shuffle(cases)
    res = run_simple(ctx, cases, "C01", chk_filter=lambda op: True, stateful_chk=True, relation=relation,
                     signature=lambda c, oi, v, agrees: "C01:%s:%s" % (c.label, " ".join(v.split(" ")[:2])))
    res["evaluations"] = sum(1 for c in cases for o in c.ops if o.startswith("e2e send") or o.startswith("e2e burst"))
    nb = [sum(1 for c in cases if c.label.startswith(tr) and any(o.startswith("e2e burst") for o in c.ops)) for tr in plan]
    res["notes"].append("sessions with a burst: %s" % ", ".join("%s %d/%d" % (tr, n, plan[tr]) for tr, n in zip(plan, nb)))
    res["notes"].append("address families exercised: %s" % ",".join(fams))
    return res
