"""C01 - end-to-end fidelity: what an exporter is given is what a collector delivers."""
import random
import subprocess

from check import Case
from gen import common as G
from gen import expcommon as X
from gen.simple import run_simple


class SPEC:
    rule = ("engine e2e: a real ExportingProcess connected to a real CollectingProcess over tcp, udp, tls and dtls (certificates minted "
            "at run time) x {IPv4, IPv6 listener when the host has ::1}; sessions of a template (1..12 registry elements of supported "
            "types, all three registries) followed by data messages of 1..n records with values from the C15 generator - variable-length "
            "boundaries 0/254/255/256 always in the mix, one maximal-payload record per tcp session, extreme numeric and float patterns. "
            "Sends are lock-step (next message only after the previous one was delivered). What GetMsgChan() delivers is compared with the "
            "model's prediction and judged by Ipfix chkE2E directly against what was handed to SendSet. Non-trivial = >= 2 fields incl. one "
            "variable-length or enterprise element; distinct by hash.")
    assumptions = ["transports are the identity on messages once established (TCP framing: C11; UDP one datagram per message; TLS/DTLS trusted)",
                   "ordinary UDP messages are kept <= 60000 bytes (some sessions add ONE datagram of the maximal payload: 65507 bytes over IPv4, 65527 over IPv6) and DTLS messages <= 8000 bytes (record size limits of the transport)"]
    trusted = ["crypto/tls, pion/dtls, the loopback interface"]


def has_v6(harness):
    try:
        out = subprocess.run([harness], input="e2e open tcp 6 strict 1\ne2e close\n", stdout=subprocess.PIPE, text=True, timeout=30).stdout
        return out.splitlines()[0] == "ok"
    except Exception:
        return False


BOUNDARY = [0, 1, 253, 254, 255, 256, 300]


def session(rng, sup, transport, fam, limit):
    ies = X.pick_ies(rng, sup, user_ok=False, maxn=12)
    if rng.random() < 0.6 and not any(ie.len == 65535 for ie in ies):
        ies.append(rng.choice(G.by_type()[13]))
    tid = rng.choice([256, 257, 4000, 65535])
    ops = ["e2e open %s %s %s %d" % (transport, fam, rng.choice(["strict", "keep", "drop"]), rng.choice([0, 1, 7, 0xffffffff, rng.getrandbits(32)]))]
    ops.append("e2e send %s t %d %d@%s" % (rng.choice(X.PATHS), tid, tid, X.elems(rng, ies, False)))
    var = [ie for ie in ies if ie.len == 65535]
    for _ in range(rng.randint(1, 5)):
        nrec = rng.choice([1, 1, 2, 3, 8])
        recs = []
        for _ in range(nrec):
            vals = []
            for ie in ies:
                if ie.len == 65535 and rng.random() < 0.5:
                    vals.append("%s=x%s" % (ie.tok(), G.hexs(G.rand_bytes(rng, rng.choice(BOUNDARY)))))
                else:
                    vals.append("%s=%s" % (ie.tok(), G.well_typed_value(rng, ie, big_ok=False, maxlen=120)))
            recs.append("%d@%s" % (tid, ",".join(vals)))
        op = "e2e send %s d %d %s" % (rng.choice(X.PATHS), tid, ";".join(recs))
        if len(op) // 2 < limit:
            ops.append(op)
    # the largest message that fits: 65535 bytes on a stream, a whole datagram over UDP (65507 bytes of payload
    # over IPv4, 65527 over IPv6 - the collector's buffer must take both)
    full = {"tcp": 65535, "tls": 65535, "udp": 65527 if fam == "6" else 65507}.get(transport)
    if var and full is not None and rng.random() < (0.5 if transport != "udp" else 0.12):
        # one record that fills the message: the largest variable-length payload that fits
        fixed = []
        size = 16 + 4
        jmax = next(j for j, ie in enumerate(ies) if ie is var[0])   # the same element may occur twice in a template
        for j, ie in enumerate(ies):
            if j == jmax:
                fixed.append(None)
            else:
                v = G.well_typed_value(rng, ie, big_ok=False, maxlen=10)
                fixed.append("%s=%s" % (ie.tok(), v))
                import gen.ipfix as W
                size += len(W.enc_value(ie, v))
        payload = full - size - 3
        vals = [f if f is not None else "%s=x%s" % (var[0].tok(), G.hexs(G.rand_bytes(rng, payload))) for f in fixed]
        ops.append("e2e send %s d %d %d@%s" % (rng.choice(X.PATHS), tid, tid, ",".join(vals)))
    ops.append("e2e close")
    nt = len(ies) >= 2 and any(ie.len == 65535 or ie.ent != 0 for ie in ies)
    return Case(ops, "%s%s" % (transport, fam), nt, True)


def run(ctx):
    rng = random.Random(ctx.seed * 1000003 + 1)
    sup = G.registry_supported()
    fams = ["4"] + (["6"] if has_v6(ctx.harness) else [])
    plan = {"quick": {"tcp": 700, "udp": 700, "tls": 40, "dtls": 24}, "thorough": {"tcp": 4000, "udp": 4000, "tls": 300, "dtls": 120}}[ctx.tier]
    limits = {"tcp": 65535, "tls": 65535, "udp": 60000, "dtls": 8000}
    cases = []
    for tr, n in plan.items():
        for k in range(n):
            cases.append(session(rng, sup, tr, fams[k % len(fams)], limits[tr]))
    rng.shuffle(cases)
    res = run_simple(ctx, cases, "C01", chk_filter=lambda op: True, stateful_chk=True,
                     signature=lambda c, oi, v, agrees: "C01:%s:%s" % (c.label, " ".join(v.split(" ")[:2])))
    res["evaluations"] = sum(1 for c in cases for o in c.ops if o.startswith("e2e send"))
    res["notes"].append("address families exercised: %s" % ",".join(fams))
    return res
