"""Session generator for the exporting-process engine `exp` (properties C02, C08, C09)."""
from check import Case
from gen import common as G


def pick_ies(rng, sup, user_ok=True, maxn=12):
    n = rng.choice([1, 1, 2, 3, 5, 8, maxn])
    out = []
    for _ in range(n):
        if user_ok and rng.random() < 0.15:
            ty = rng.choice(G.SUPPORTED)
            ln = 65535 if ty in (0, 13) else {12: 6, 18: 4, 19: 16, 11: 1}.get(ty, G.WIDTH.get(ty, 1))
            out.append(G.IE(rng.choice([55555, 4294967295, 1]), rng.choice([1, 2, 300, 32766, 32767]), ty, ln, "user%d" % ty))
        else:
            out.append(rng.choice(sup))
    return out


def elems(rng, ies, data, maxlen=200):
    if not ies:
        return "-"
    from gen.c16 import zero_value
    return ",".join("%s=%s" % (ie.tok(), G.well_typed_value(rng, ie, big_ok=False, maxlen=maxlen) if data else zero_value(ie)) for ie in ies)


PATHS = ["0", "1", "2", "0r", "1r", "2r"]


def send_template(rng, tid, ies):
    return "exp send %s t %d %d@%s" % (rng.choice(PATHS), tid, tid, elems(rng, ies, False))


def send_data(rng, tid, ies, nrec, setid=None, maxlen=200):
    recs = ";".join("%d@%s" % (tid, elems(rng, ies, True, maxlen)) for _ in range(nrec))
    return "exp send %s d %d %s" % (rng.choice(PATHS), tid if setid is None else setid, recs)


def valid_session(rng, sup, nsends, near_wrap=False, user_ok=True):
    ops = ["exp new %d" % rng.choice([0, 1, 7, 0xffffffff, rng.getrandbits(32)])]
    if near_wrap:
        ops.append("exp seq %d" % (2 ** 32 - rng.randint(1, 500)))
    elif rng.random() < 0.3:
        ops.append("exp seq %d" % rng.getrandbits(32))
    tpls = {}
    for _ in range(nsends):
        if not tpls or rng.random() < 0.25:
            tid = rng.choice([256, 257, 300, 65535, 4000])
            if tid not in tpls:
                tpls[tid] = pick_ies(rng, sup, user_ok)
            ops.append(send_template(rng, tid, tpls[tid]))
        else:
            tid = rng.choice(sorted(tpls))
            ops.append(send_data(rng, tid, tpls[tid], rng.choice([1, 1, 2, 3, 7, 20])))
        if rng.random() < 0.12:
            ops.append("exp refresh")      # one pass of the UDP template refresher between two application sends
    ops += ["exp getseq", "exp tids"]
    return ops, tpls


def var_ie():
    return [ie for ie in G.by_type()[13]][0]


def invalid_ops(rng, sup, tpls, kind):
    """ops that must be refused (or are a known finding); returns (ops, label)"""
    tid = rng.choice(sorted(tpls))
    ies = tpls[tid]
    def among_valid(bad_rec):
        """the offending record at a random position of a set of 1..4 records, the others valid (every record is checked,
        not only the first or the last)"""
        n = rng.choice([1, 2, 3, 4])
        pos = rng.randrange(n)
        recs = ["%d@%s" % (tid, elems(rng, ies, True)) for _ in range(n)]
        recs[pos] = bad_rec
        return "exp send %s d %d %s" % (rng.choice("012"), tid, ";".join(recs)), "" if n == 1 else ":pos%d/%d" % (pos + 1, n)
    if kind == "unknown-template":
        r = rng.random()
        if r < 0.2:
            # a record with NO fields for a template that was never sent (a missing template must not read as "0 fields")
            return ["exp send %s d 9999 9999@-" % rng.choice("012")], kind + ":zero-fields"
        if r < 0.55:
            return [send_data(rng, 9999, ies, 1)], kind
        op, where = among_valid("9999@%s" % elems(rng, ies, True))
        return [op], kind + where
    if kind == "field-count":
        wrong = ies + [rng.choice(sup)] if rng.random() < 0.5 or len(ies) < 2 else ies[:-1]
        op, where = among_valid("%d@%s" % (tid, elems(rng, wrong, True)))
        return [op], kind + where
    if kind == "undefined-type":
        return ["exp send 0 u %d -" % tid], kind
    if kind == "oversize":
        s = var_ie()
        ops = [send_template(rng, 500, [s])]
        for total in rng.sample(range(65519, 65541), 2):
            payload = total - 16 - 4 - 3
            ops.append("exp send %s d 500 500@%s=x%s" % (rng.choice("012"), s.tok(), G.hexs(G.rand_bytes(rng, payload))))
        return ops, kind
    if kind == "oversize-template":
        many = [rng.choice(sup) for _ in range(20000)]
        return [send_template(rng, 600, many), send_data(rng, 600, many[:3], 1)], kind
    if kind == "setid-mismatch":
        return [send_data(rng, tid, ies, 1, setid=rng.choice([301, 999]))], kind
    if kind == "ill-typed":
        cands = [ie for ie in sup if ie.ty in (12, 18, 19)] + [G.IE(55555, 77, 0, 8, "fixedOctets8")]
        ie = rng.choice(cands)
        tok, what = G.ill_typed_value(rng, ie)
        pre = rng.choice(sup)
        post = rng.choice(sup)
        tl = [pre, ie, post]
        ops = [send_template(rng, 700, tl)]
        vals = "%s=%s,%s=%s,%s=%s" % (pre.tok(), G.well_typed_value(rng, pre, False, 50), ie.tok(), tok, post.tok(), G.well_typed_value(rng, post, False, 50))
        ops.append("exp send %s d 700 700@%s" % (rng.choice("012"), vals))
        return ops, "ill-typed:" + what
    raise ValueError(kind)


INVALID = ["unknown-template", "field-count", "undefined-type", "oversize", "setid-mismatch", "ill-typed", "ill-typed", "ill-typed"]


def mixed_session(rng, sup, kind=None):
    ops, tpls = valid_session(rng, sup, rng.randint(2, 6), user_ok=False)
    tail = ops[-2:]
    ops = ops[:-2]
    kind = kind or rng.choice(INVALID)
    bad, label = invalid_ops(rng, sup, tpls, kind)
    ops += bad
    # later sends must still be well-formed
    for _ in range(rng.randint(1, 3)):
        tid = rng.choice(sorted(tpls))
        ops.append(send_data(rng, tid, tpls[tid], rng.randint(1, 3)))
    return Case(ops + tail, label, True, True)
