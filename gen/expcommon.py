"""Session generator for the exporting-process engine `exp` (properties C02, C08, C09)."""
from check import Case
from gen import common as G


def pick_ies(rng, sup, user_ok=True, maxn=12):
    n = rng.choice([1, 1, 2, 3, 5, 8, maxn])
    out = []
    for _ in range(n):
        if user_ok and rng.random() < 0.15:
            ty = rng.choice(G.SUPPORTED)
            ln = 65535 if ty in (0, 13) else {12: 6, 18: 4, 19: 16, 11: 1}.get(ty, G.WIDTH.get(ty, 1))
            if ty == 0 and rng.random() < 0.5:
                ln = rng.choice([1, 6, 16, 33])      # a fixed-length octet array: a declared length that is NOT the type's default

            out.append(G.IE(rng.choice([55555, 4294967295, 1]), rng.choice([1, 2, 300, 32766, 32767]), ty, ln, "user%d" % ty))
        else:
            out.append(rng.choice(sup))
    return out


def elems(rng, ies, data, maxlen=200):
    if not ies:
        return "-"
    from gen.c16 import zero_value
    return ",".join("%s=%s" % (ie.tok(), G.well_typed_value(rng, ie, big_ok=False, maxlen=maxlen) if data else zero_value(ie)) for ie in ies)


PATHS = ["0", "1", "2", "0r", "1r", "2r"]


def send_template(rng, tid, ies):
    return "exp send %s t %d %d@%s" % (rng.choice(PATHS), tid, tid, elems(rng, ies, False))


def send_data(rng, tid, ies, nrec, setid=None, maxlen=200):
    recs = ";".join("%d@%s" % (tid, elems(rng, ies, True, maxlen)) for _ in range(nrec))
    return "exp send %s d %d %s" % (rng.choice(PATHS), tid if setid is None else setid, recs)


def valid_session(rng, sup, nsends, near_wrap=False, user_ok=True, json=False):
    ops = ["exp new %d%s" % (rng.choice([0, 1, 7, 0xffffffff, rng.getrandbits(32)]), " json" if json else "")]
    if near_wrap:
        ops.append("exp seq %d" % (2 ** 32 - rng.randint(1, 500)))
    elif rng.random() < 0.3:
        ops.append("exp seq %d" % rng.getrandbits(32))
    tpls = {}
    for _ in range(nsends):
        if not tpls or rng.random() < 0.25:
            tid = rng.choice([256, 257, 300, 65535, 4000])
            if tid not in tpls:
                tpls[tid] = pick_ies(rng, sup, user_ok)
            ops.append(send_template(rng, tid, tpls[tid]))
        else:
            tid = rng.choice(sorted(tpls))
            ops.append(send_data(rng, tid, tpls[tid], rng.choice([1, 1, 2, 3, 7, 20])))
        if rng.random() < 0.12:
            ops.append("exp refresh")      # one pass of the UDP template refresher between two application sends
    ops += ["exp getseq", "exp tids"]
    return ops, tpls


def var_ie():
    return [ie for ie in G.by_type()[13]][0]


def invalid_ops(rng, sup, tpls, kind):
    """ops that must be refused (or are a known finding); returns (ops, label)"""
    tid = rng.choice(sorted(tpls))
    ies = tpls[tid]
    def among_valid(bad_rec):
        """the offending record at a random position of a set of 1..4 records, the others valid (every record is checked,
        not only the first or the last)"""
        n = rng.choice([1, 2, 3, 4])
        pos = rng.randrange(n)
        recs = ["%d@%s" % (tid, elems(rng, ies, True)) for _ in range(n)]
        recs[pos] = bad_rec
        return "exp send %s d %d %s" % (rng.choice("012"), tid, ";".join(recs)), "" if n == 1 else ":pos%d/%d" % (pos + 1, n)
    if kind == "unknown-template":
        r = rng.random()
        if r < 0.2:
            # a record with NO fields for a template that was never sent (a missing template must not read as "0 fields")
            return ["exp send %s d 9999 9999@-" % rng.choice("012")], kind + ":zero-fields"
        if r < 0.55:
            return [send_data(rng, 9999, ies, 1)], kind
        op, where = among_valid("9999@%s" % elems(rng, ies, True))
        return [op], kind + where
    if kind == "field-count":
        wrong = ies + [rng.choice(sup)] if rng.random() < 0.5 or len(ies) < 2 else ies[:-1]
        op, where = among_valid("%d@%s" % (tid, elems(rng, wrong, True)))
        return [op], kind + where
    if kind == "undefined-type":
        return ["exp send 0 u %d -" % tid], kind
    if kind == "oversize":
        s = var_ie()
        ops = [send_template(rng, 500, [s])]
        for total in rng.sample(range(65519, 65541), 2):
            payload = total - 16 - 4 - 3
            ops.append("exp send %s d 500 500@%s=x%s" % (rng.choice("012"), s.tok(), G.hexs(G.rand_bytes(rng, payload))))
        return ops, kind
    if kind == "oversize-template":
        many = [rng.choice(sup) for _ in range(20000)]
        return [send_template(rng, 600, many), send_data(rng, 600, many[:3], 1)], kind
    if kind == "setid-mismatch":
        return [send_data(rng, tid, ies, 1, setid=rng.choice([301, 999]))], kind
    if kind == "ill-typed":
        cands = [ie for ie in sup if ie.ty in (12, 18, 19)] + [G.IE(55555, 77, 0, 8, "fixedOctets8")]
        ie = rng.choice(cands)
        tok, what = G.ill_typed_value(rng, ie)
        pre = rng.choice(sup)
        post = rng.choice(sup)
        tl = [pre, ie, post]
        ops = [send_template(rng, 700, tl)]
        vals = "%s=%s,%s=%s,%s=%s" % (pre.tok(), G.well_typed_value(rng, pre, False, 50), ie.tok(), tok, post.tok(), G.well_typed_value(rng, post, False, 50))
        ops.append("exp send %s d 700 700@%s" % (rng.choice("012"), vals))
        return ops, "ill-typed:" + what
    raise ValueError(kind)


INVALID_JSON = ["unknown-template", "field-count", "setid-mismatch", "undefined-type"]
INVALID = ["unknown-template", "field-count", "undefined-type", "oversize", "setid-mismatch", "ill-typed", "ill-typed", "ill-typed"]


def mixed_session(rng, sup, kind=None, json=False):
    """json=True: the same session on a process created in JSON mode (`exp new <dom> json`); the caller picks the kind
    from INVALID_JSON (the size and value-encoding demands are about the IPFIX message and do not apply)"""
    ops, tpls = valid_session(rng, sup, rng.randint(2, 6), user_ok=False, json=json)
    tail = ops[-2:]
    ops = ops[:-2]
    kind = kind or rng.choice(INVALID)
    bad, label = invalid_ops(rng, sup, tpls, kind)
    ops += bad
    # later sends must still be well-formed
    for _ in range(rng.randint(1, 3)):
        tid = rng.choice(sorted(tpls))
        ops.append(send_data(rng, tid, tpls[tid], rng.randint(1, 3)))
    return Case(ops + tail, ("json:" if json else "") + label, True, True)


# ---- Write outcomes (`exp failnext <kind>`: the NEXT Write on the connection fails / is refused / is short) ----

def template_msg_len(ies):
    """length of the message of a template set with one record: message header, set header, record header, specifiers"""
    return 16 + 4 + 4 + sum(8 if ie.ent else 4 for ie in ies)


def fail_kind(rng, msglen=None):
    """err / errfull / refused (ECONNREFUSED of a connected UDP socket) / short<k> with k below the message length"""
    r = rng.random()
    if r < 0.2:
        return "err"
    if r < 0.35:
        return "errfull"      # the Write returns the FULL length and an error (what pion/dtls does): still a failed write
    if r < 0.7:
        return "refused"
    ks = [0, 1, 3, 4, 7, 8, 15, 16, 19, 20, 21]
    if msglen is not None:
        ks = [k for k in ks if k < msglen] + [msglen - 1, msglen - 1]
    return "short%d" % rng.choice(ks)


def failnext_template_session(rng, sup):
    """a template set whose Write fails was never sent: data for it must be refused; after a re-send that succeeds it is accepted"""
    ops, tpls = valid_session(rng, sup, rng.randint(0, 4), user_ok=False) if rng.random() < 0.6 else (["exp new %d" % rng.getrandbits(32), "exp getseq", "exp tids"], {})
    tail, ops = ops[-2:], ops[:-2]
    tid = rng.choice([t for t in (258, 259, 301, 1000, 65534) if t not in tpls])
    ies = pick_ies(rng, sup, False)
    kind = fail_kind(rng, template_msg_len(ies))
    ops.append("exp failnext " + kind)
    if tpls and rng.random() < 0.2:
        # a send that is refused before any Write leaves the outcome pending: the template set after it gets it
        ops.append(send_data(rng, 9999, ies, 1))
    ops.append(send_template(rng, tid, ies))
    if rng.random() < 0.3:
        ops.append("exp tids")
    if rng.random() < 0.25:
        ops.append("exp refresh")          # the refresher must not know the template either
    for _ in range(rng.randint(1, 2)):
        ops.append(send_data(rng, tid, ies, rng.choice([1, 1, 2, 5])))      # must be refused
    if tpls and rng.random() < 0.5:
        other = rng.choice(sorted(tpls))
        ops.append(send_data(rng, other, tpls[other], rng.randint(1, 3)))   # the other templates are not affected
    ops.append(send_template(rng, tid, ies))                                # this one is written
    for _ in range(rng.randint(1, 3)):
        ops.append(send_data(rng, tid, ies, rng.choice([1, 2, 3, 7])))      # accepted now
    return Case(ops + tail, "failnext-template:" + kind.rstrip("0123456789"), True, True)


def failnext_data_session(rng, sup):
    """a data set (or a re-sent template) whose Write fails: an error, nothing beyond the outcome on the wire, later sends well-formed"""
    ops, tpls = valid_session(rng, sup, rng.randint(1, 5), user_ok=False)
    tail, ops = ops[-2:], ops[:-2]
    for _ in range(rng.randint(1, 3)):
        tid = rng.choice(sorted(tpls))
        r = rng.random()
        if r < 0.15:
            kind = "short70000"            # more than any message: the connection takes all of it, the send succeeds
        else:
            kind = fail_kind(rng)
        ops.append("exp failnext " + kind)
        if r > 0.85:
            ops.append(send_template(rng, tid, tpls[tid]))   # a template that was sent before stays sent
        else:
            ops.append(send_data(rng, tid, tpls[tid], rng.choice([1, 2, 3, 7])))
        for _ in range(rng.randint(1, 2)):
            t2 = rng.choice(sorted(tpls))
            ops.append(send_data(rng, t2, tpls[t2], rng.randint(1, 3)))
    return Case(ops + tail, "failnext-data", True, True)
