"""C06 - flow expiry: callbacks fire exactly at deadlines and no flow is ever stranded."""
import itertools
import random

from check import Case
from gen import aggcommon as AG
from gen import common as G
from gen.simple import run_simple


class SPEC:
    rule = ("engine agg under the virtual clock (overlay rewrite time.Now() -> verifNow()) with the map/heap snapshot hook: traces over "
            "{record for key k, advance by A / I-A / I (so deadlines EQUAL to the scan time are reached), expiry scan whose callback fails on a "
            "chosen subset of keys}, a snapshot (held keys, heap array with deadlines, item index consistency, readiness, retries) after every "
            "step and the advertised next expiry after every scan. Quick: ALL traces of length <= 5 over 2 keys (9-symbol alphabet), plus random "
            "traces up to length 200 over 3 keys including flows that wait for correlation (retry / drop path), about 5 % of whose records lack one of "
            "the non-pod correlate fields. The heap array is compared "
            "position by position with the container/heap model; the declarative scheduling spec (Ipfix.C06.checkSched/checkRec/checkScan/"
            "expectedExpiry, independent of the heap) is evaluated on every implementation snapshot. Non-trivial = a scan with at least one due item.")
    assumptions = ["active and inactive timeouts > 0 (with a zero timeout a re-armed item is due again at once; the scan still terminates since fix 7354df1)"]
    trusted = ["the overlay's mechanical rewrite time.Now() -> verifNow() in pkg/intermediate"]


A, I = 100, 250
STATS = [10, 5, 1000, 500, 3, 1, 300, 100]


def sym_ops(sym, st):
    kind = sym[0]
    if kind == "r":
        k = sym[1]
        st["n"] += 1
        return [AG.intra(k, 100, 100 + st["n"], [x * st["n"] for x in STATS]), "agg snap"]
    if kind == "a":
        return ["agg adv %d" % sym[1], "agg snap"]
    if kind == "s":
        return ["agg scan %s %d" % (sym[1], sym[2]), "agg snap", "agg expiry"]
    raise ValueError(sym)


def trace_case(trace, label):
    ops = ["agg new %d %d" % (A, I)]
    st = {"n": 0}
    for s in trace:
        ops += sym_ops(s, st)
    nt = any(s[0] == "s" for s in trace) and any(s[0] == "r" for s in trace) and any(s[0] == "a" for s in trace)
    return Case(ops, label, nt, True)


def gen_cases(rng, tier):
    alphabet = [("r", 1), ("r", 2), ("a", A), ("a", I - A), ("a", I), ("s", "-", 0), ("s", "1", 0), ("s", "2", 0), ("s", "1,2", 1)]
    cases = []
    depth = 5 if tier == "quick" else 6
    for n in range(1, depth + 1):
        for tr in itertools.product(alphabet, repeat=n):
            # traces that never create a flow exercise nothing
            if not any(s[0] == "r" for s in tr):
                continue
            cases.append(trace_case(tr, "exh%d" % n))
    # random long traces, 3 keys, with flows that wait for correlation
    nr = 400 if tier == "quick" else 20000
    for _ in range(nr):
        ops = ["agg new %d %d" % (A, I)]
        cnt = 0
        for _ in range(rng.randint(5, 200 if tier == "thorough" else 120)):
            r = rng.random()
            if r < 0.45:
                k = rng.choice([1, 2, 3])
                cnt += 1
                kind = rng.random()
                stats = [x * cnt for x in STATS]
                if kind < 0.5:
                    ops.append(AG.intra(k, 100, 100 + cnt, stats))
                elif kind < 0.75:
                    ops.append(AG.inter_src(k, 100, 100 + cnt, stats))
                else:
                    ops.append(AG.inter_dst(k, 100, 100 + cnt, stats))
                # about 5 % of the records lack one of the non-pod correlate fields (another template)
                ops[-1] = AG.sprinkle_absent([ops[-1]])[0]
                ops.append("agg snap")
            elif r < 0.75:
                ops += ["agg adv %d" % rng.choice([0, 1, A - 1, A, A + 1, I - A, I, I + 1, 50]), "agg snap"]
            else:
                fails = rng.choice(["-", "-", "-", "1", "2", "3", "1,2", "1,2,3"])
                ops += ["agg scan %s %d" % (fails, rng.choice([0, 1])), "agg snap", "agg expiry"]
        cases.append(Case(ops, "random", True, True))
    # the same, the records arriving in data sets of 1..4 records of mixed keys which a collecting process decoded (`agg msg`)
    rng2 = random.Random(rng.randrange(1 << 30))
    for _ in range(60 if tier == "quick" else 3000):
        ops = ["agg new %d %d" % (A, I)]
        cnt = 0
        for _ in range(rng2.randint(5, 80)):
            r = rng2.random()
            if r < 0.45:
                recs = []
                for _ in range(rng2.choice([1, 2, 2, 3, 4])):
                    cnt += 1
                    f = rng2.choice([AG.intra, AG.intra, AG.inter_src, AG.inter_dst])
                    recs.append(f(rng2.choice([1, 2, 3]), 100, 100 + cnt, [x * cnt for x in STATS]))
                ops += [AG.msg_op(AG.sprinkle_absent(recs)), "agg snap"]
            elif r < 0.75:
                ops += ["agg adv %d" % rng2.choice([0, 1, A - 1, A, A + 1, I - A, I, I + 1, 50]), "agg snap"]
            else:
                fails = rng2.choice(["-", "-", "-", "1", "2", "3", "1,2", "1,2,3"])
                ops += ["agg scan %s %d" % (fails, rng2.choice([0, 1])), "agg snap", "agg expiry"]
        cases.append(Case(ops, "random-msg", True, True))
    return cases


def run(ctx):
    rng = random.Random(ctx.seed * 1000003 + 6)
    cases = gen_cases(rng, ctx.tier)
    res = run_simple(ctx, cases, "C06", chk_filter=lambda op: True, stateful_chk=True,
                     signature=lambda c, oi, v, agrees: "C06:%s" % " ".join(v.split(" ")[:3]))
    res["notes"].append("all traces of length <= %d over the 9-symbol alphabet on 2 keys enumerated" % (5 if ctx.tier == "quick" else 6))
    return res
