"""C06 - flow expiry: callbacks fire exactly at deadlines and no flow is ever stranded."""
import itertools
import random

from check import Case
from gen import aggcommon as AG
from gen import common as G
from gen.simple import run_simple


class SPEC:
    rule = ("engine agg under the virtual clock (overlay rewrite time.Now() -> verifNow()) with the map/heap snapshot hook: traces over "
            "{record for key k, advance by A / I-A / I (so deadlines EQUAL to the scan time are reached), expiry scan whose callback fails on a "
            "chosen subset of keys}, a snapshot (held keys, heap array with deadlines, item index consistency, readiness, retries) after every "
            "step and the advertised next expiry after every scan. Quick: ALL traces of length <= 5 over 2 keys (9-symbol alphabet), plus random "
            "traces up to length 200 over 3 keys including flows that wait for correlation (retry / drop path), about 5 % of whose records lack one of "
            "the non-pod correlate fields. The heap array is compared "
            "position by position with the container/heap model; the declarative scheduling spec (Ipfix.C06.checkSched/checkRec/checkScan/"
            "expectedExpiry, independent of the heap) is evaluated on every implementation snapshot. Every second history creates the process from "
            "the same configuration with its lists in another order (`cfg<n>`). REFUSED records (judged on the implementation's snapshots; the "
            "model has no such record): between ordinary records, clock advances and scans a held flow - or a five-tuple not held - is sent a "
            "record whose template lacks one of the eight statistics elements, tcpState, flowEndReason or flowEndSeconds (`omit=`); when the "
            "aggregation refuses it (`err`) the snapshot that follows must be the previous one (Ipfix.C06.checkIdle: held keys, flow count and "
            "every item's deadlines, readiness and retries unchanged) and the later scans and advertised expiries are judged against it; the shape "
            "`two flows, scan at the first one's active deadline, refused record for it, scan after the second one's deadline` for every element and "
            "several timeout pairs, plus random traces. MANY flows (five-tuples 7..4000, synthesized): 150..400 flows created in data sets of up to "
            "40 records, some of them later than the others, one clock advance past the deadline of the earlier ones and ONE scan which must hand "
            "all of these to the callback, then the advertised expiry, then a scan for the rest. "
            "Non-trivial = a scan with at least one due item.")
    assumptions = ["active and inactive timeouts > 0 (with a zero timeout a re-armed item is due again at once; the scan still terminates since fix 7354df1)"]
    trusted = ["the overlay's mechanical rewrite time.Now() -> verifNow() in pkg/intermediate"]


A, I = 100, 250
STATS = [10, 5, 1000, 500, 3, 1, 300, 100]


def sym_ops(sym, st):
    kind = sym[0]
    if kind == "r":
        k = sym[1]
        st["n"] += 1
        return [AG.intra(k, 100, 100 + st["n"], [x * st["n"] for x in STATS]), "agg snap"]
    if kind == "a":
        return ["agg adv %d" % sym[1], "agg snap"]
    if kind == "s":
        return ["agg scan %s %d" % (sym[1], sym[2]), "agg snap", "agg expiry"]
    raise ValueError(sym)


def trace_case(trace, label):
    ops = ["agg new %d %d" % (A, I)]
    st = {"n": 0}
    for s in trace:
        ops += sym_ops(s, st)
    nt = any(s[0] == "s" for s in trace) and any(s[0] == "r" for s in trace) and any(s[0] == "a" for s in trace)
    return Case(ops, label, nt, True)


def gen_cases(rng, tier):
    alphabet = [("r", 1), ("r", 2), ("a", A), ("a", I - A), ("a", I), ("s", "-", 0), ("s", "1", 0), ("s", "2", 0), ("s", "1,2", 1)]
    cases = []
    depth = 5 if tier == "quick" else 6
    for n in range(1, depth + 1):
        for tr in itertools.product(alphabet, repeat=n):
            # traces that never create a flow exercise nothing
            if not any(s[0] == "r" for s in tr):
                continue
            cases.append(trace_case(tr, "exh%d" % n))
    # random long traces, 3 keys, with flows that wait for correlation
    nr = 400 if tier == "quick" else 20000
    for _ in range(nr):
        ops = ["agg new %d %d" % (A, I)]
        cnt = 0
        for _ in range(rng.randint(5, 200 if tier == "thorough" else 120)):
            r = rng.random()
            if r < 0.45:
                k = rng.choice([1, 2, 3])
                cnt += 1
                kind = rng.random()
                stats = [x * cnt for x in STATS]
                if kind < 0.5:
                    ops.append(AG.intra(k, 100, 100 + cnt, stats))
                elif kind < 0.75:
                    ops.append(AG.inter_src(k, 100, 100 + cnt, stats))
                else:
                    ops.append(AG.inter_dst(k, 100, 100 + cnt, stats))
                # about 5 % of the records lack one of the non-pod correlate fields (another template)
                ops[-1] = AG.sprinkle_absent([ops[-1]])[0]
                ops.append("agg snap")
            elif r < 0.75:
                ops += ["agg adv %d" % rng.choice([0, 1, A - 1, A, A + 1, I - A, I, I + 1, 50]), "agg snap"]
            else:
                fails = rng.choice(["-", "-", "-", "1", "2", "3", "1,2", "1,2,3"])
                ops += ["agg scan %s %d" % (fails, rng.choice([0, 1])), "agg snap", "agg expiry"]
        cases.append(Case(ops, "random", True, True))
    # the same, the records arriving in data sets of 1..4 records of mixed keys which a collecting process decoded (`agg msg`)
    rng2 = random.Random(rng.randrange(1 << 30))
    for _ in range(60 if tier == "quick" else 3000):
        ops = ["agg new %d %d" % (A, I)]
        cnt = 0
        for _ in range(rng2.randint(5, 80)):
            r = rng2.random()
            if r < 0.45:
                recs = []
                for _ in range(rng2.choice([1, 2, 2, 3, 4])):
                    cnt += 1
                    f = rng2.choice([AG.intra, AG.intra, AG.inter_src, AG.inter_dst])
                    recs.append(f(rng2.choice([1, 2, 3]), 100, 100 + cnt, [x * cnt for x in STATS]))
                ops += [AG.msg_op(AG.sprinkle_absent(recs)), "agg snap"]
            elif r < 0.75:
                ops += ["agg adv %d" % rng2.choice([0, 1, A - 1, A, A + 1, I - A, I, I + 1, 50]), "agg snap"]
            else:
                fails = rng2.choice(["-", "-", "-", "1", "2", "3", "1,2", "1,2,3"])
                ops += ["agg scan %s %d" % (fails, rng2.choice([0, 1])), "agg snap", "agg expiry"]
        cases.append(Case(ops, "random-msg", True, True))
    return cases


def refused_cases(rng, tier):
    """records the aggregation refuses (`omit=`: the record's template lacks a configured element). Outside the model
    (in_domain=False), judged by the scheduling specification (judge=True)."""
    cases = []
    stats = lambda n: [x * n for x in STATS]
    # the shape: two flows; a scan at the first one's active deadline re-arms it (its earliest deadline is now the
    # inactive one, it is the root of the heap again); a refused record for it; a scan after the second one's
    # deadline has passed
    for a, i, t2, t_scan, t_ref, t_end in ((1000, 1500, 700, 1100, 1300, 1800), (100, 150, 70, 110, 130, 180), (100, 250, 40, 100, 120, 150),
                                           (100, 120, 90, 100, 110, 195), (200, 300, 150, 250, 280, 360)):
        for name in AG.REFUSED_WITHOUT:
            for k1, k2 in ((1, 2), (3, 1)):
                ops = ["agg new %d %d" % (a, i), AG.intra(k1, 100, 101, stats(1)), "agg snap", "agg adv %d" % t2, AG.intra(k2, 100, 102, stats(2)), "agg snap",
                       "agg adv %d" % (t_scan - t2), "agg scan - 0", "agg snap", "agg expiry",
                       "agg adv %d" % (t_ref - t_scan), AG.omit(AG.intra(k1, 100, 103, stats(3)), [name]), "agg snap", "agg expiry",
                       "agg adv %d" % (t_end - t_ref), "agg snap", "agg scan - 0", "agg snap", "agg expiry",
                       AG.intra(k1, 100, 104, stats(4)), "agg snap", "agg adv %d" % i, "agg scan - 1", "agg snap", "agg expiry"]
                cases.append(Case(ops, "refused-shape", True, False, True))
    # random traces: ordinary records (single-stream flows, so every held flow is ready), advances, scans - and refused records,
    # most of them for a five-tuple which is certainly held (its inactive deadline has not passed)
    for _ in range(300 if tier == "quick" else 6000):
        a, i = rng.choice([(A, I), (A, I), (100, 150), (100, 120), (1000, 1500), (100, 100), (250, 100)])
        ops = ["agg new %d %d" % (a, i)]
        now, cnt, seen = 0, 0, {}
        keys = [1, 2, 3] if rng.random() < 0.7 else [1, 2, 3, 6, 7, 8, 9]
        for _ in range(rng.randint(6, 120 if tier == "thorough" else 80)):
            r = rng.random()
            if r < 0.35:
                k = rng.choice(keys)
                cnt += 1
                ops += [AG.intra(k, 100, 100 + cnt, stats(cnt)), "agg snap"]
                seen[k] = now
            elif r < 0.55:
                held = [k for k in keys if k in seen and now - seen[k] < i]
                k = rng.choice(held) if held and rng.random() < 0.85 else rng.choice(keys)
                cnt += 1
                names = [rng.choice(AG.REFUSED_WITHOUT)] if rng.random() < 0.8 else rng.sample(AG.REFUSED_WITHOUT, 2)
                ops += [AG.omit(AG.intra(k, 100, 100 + cnt, stats(cnt)), names), "agg snap"]
                if rng.random() < 0.3:
                    ops.append("agg expiry")
            elif r < 0.8:
                d = rng.choice([0, 1, a - 1, a, a + 1, abs(i - a), i, i + 1, a // 2, 20])
                now += d
                ops += ["agg adv %d" % d, "agg snap"]
            else:
                ops += ["agg scan %s %d" % (rng.choice(["-", "-", "-", "1", "2", "1,2"]), rng.choice([0, 1])), "agg snap", "agg expiry"]
        cases.append(Case(ops, "refused-random", True, False, True))
    return cases


def many_cases(rng, tier):
    """hundreds of flows due in ONE scan (five-tuples 7..4000 of the engine)"""
    cases = []
    stats = lambda n: [x * (n % 1000 + 1) for x in STATS]

    def feed(ops, keys, cnt):
        # data sets of up to 40 records, a few records alone
        j = 0
        while j < len(keys):
            n = rng.choice([1, 7, 25, 40, 40])
            part = keys[j:j + n]
            j += n
            recs = [AG.intra(k, 100, 101 + cnt + x, stats(k)) for x, k in enumerate(part)]
            cnt += len(part)
            ops += [AG.msg_op(recs) if len(recs) > 1 else recs[0], "agg snap"]
        return cnt

    for c in range(6 if tier == "quick" else 40):
        n = [150, 200, 129, 257, 300, 400][c] if c < 6 else rng.randint(150, 400)
        a, i = rng.choice([(A, I), (100, 150), (1000, 1500), (250, 100)])
        keys = rng.sample(range(7, 4001), n)
        later = rng.choice([0, 0, 10, 60]) if c != 1 else 0
        ops = ["agg new %d %d" % (a, i)]
        cnt = feed(ops, keys, 0)
        first = min(a, i)
        if later:
            # some flows created later: not due at the scan
            d = rng.choice([1, first // 2, first - 1])
            ops += ["agg adv %d" % d, "agg snap"]
            cnt = feed(ops, rng.sample([k for k in range(7, 4001) if k not in keys], later), cnt)
            if rng.random() < 0.5:     # ... and some of the early flows get a record in between
                cnt = feed(ops, rng.sample(keys, 20), cnt)
            ops += ["agg adv %d" % (first - d + rng.choice([0, 0, 1])), "agg snap"]
        else:
            ops += ["agg adv %d" % (first + rng.choice([0, 0, 1, 30])), "agg snap"]
        ops += ["agg scan - %d" % rng.choice([0, 1]), "agg snap", "agg expiry"]
        ops += ["agg adv %d" % max(a, i), "agg snap", "agg scan - 0", "agg snap", "agg expiry", "agg adv %d" % (a + i), "agg scan - 0", "agg snap", "agg expiry"]
        cases.append(Case(ops, "many-flows", True, True))
    return cases


def run(ctx):
    rng = random.Random(ctx.seed * 1000003 + 6)
    cases = gen_cases(rng, ctx.tier)
    # own streams of random numbers: the histories above are the ones the seed generated before
    cases += refused_cases(random.Random(ctx.seed * 1000003 + 606), ctx.tier)
    cases += many_cases(random.Random(ctx.seed * 1000003 + 607), ctx.tier)
    AG.with_cfg(cases)
    res = run_simple(ctx, cases, "C06", chk_filter=lambda op: True, stateful_chk=True,
                     signature=lambda c, oi, v, agrees: "C06:%s" % " ".join(v.split(" ")[:3]))
    res["notes"].append("all traces of length <= %d over the 9-symbol alphabet on 2 keys enumerated" % (5 if ctx.tier == "quick" else 6))
    return res
