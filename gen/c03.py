"""C03 - collector decoding is total and exact on arbitrary bytes."""
import random

from check import Case
from gen import common as G
from gen import ipfix as W
from gen.deccommon import run_dec


class SPEC:
    rule = ("engine dec: in-package decodePacket on (i) random bytes behind a valid-looking header, (ii) grammar-generated messages, "
            "(iii) mutations of valid messages: every single-byte truncation and 1..3-byte extension, length-field and variable-length "
            "prefix perturbations (254/255 boundary), random bit flips; x template states (normal, zero fields, variable-length only, "
            "64-bit only, user-registered Signed64, unknown elements of length 1/7/65535 and 0) x the three decoding modes. Non-trivial = "
            "the packet gets past header decoding into template or record decoding; distinct by hash of the op list.")
    assumptions = ["decodePacket is driven in-process (overlay hook VerifDecodePacket) with a drained message channel; "
                   "panics are caught by recover, non-termination by a 20 s watchdog"]
    trusted = ["registry tie: Generated.registryByID is cross-checked against registry.GetInfoElementFromID by the C17 check"]


MODES = ["strict", "keep", "drop"]


def pick_template(rng, kind):
    sup = G.registry_supported()
    bt = G.by_type()
    if kind == "normal":
        return [rng.choice(sup) for _ in range(rng.randint(1, 6))]
    if kind == "zero":
        return []
    if kind == "varonly":
        return [rng.choice(bt[13] + [ie for ie in bt[0] if ie.len == 65535]) for _ in range(rng.randint(1, 3))]
    if kind == "u64only":
        return [rng.choice(bt[4]) for _ in range(rng.randint(1, 3))]
    if kind == "mixed":
        return [rng.choice(bt[18]), rng.choice(bt[1]), rng.choice(bt[13])]
    if kind == "unknown":
        n = rng.randint(1, 4)
        out = []
        for _ in range(n):
            r = rng.random()
            if r < 0.5:
                out.append(rng.choice(sup))
            else:
                ln = rng.choice([1, 7, 65535, 0, 2, 300])
                ent = rng.choice([0, 0, 55555, 29305])
                out.append(G.IE(ent, rng.randint(20000, 30000), 0, ln, ""))
        return out
    raise ValueError(kind)


KINDS = ["normal", "normal", "mixed", "zero", "varonly", "u64only", "unknown", "unknown"]


def valid_data(rng, ies, nrec):
    recs = []
    for _ in range(nrec):
        toks = [G.well_typed_value(rng, ie, big_ok=False, maxlen=300) if ie.name != "" else
                "x" + G.hexs(G.rand_bytes(rng, ie.len if ie.len < 65535 else G.rand_var_len(rng, False, 300))) for ie in ies]
        recs.append(W.record_bytes(ies, toks, rng, 0.15))     # some variable-length values in the three-octet length form
    return b"".join(recs)


def mutations(rng, pkt, budget):
    out = []
    n = len(pkt)
    # truncations and extensions
    cuts = list(range(max(0, n - 40), n)) + [rng.randrange(0, n) for _ in range(4)]
    for c in cuts:
        out.append(("trunc", pkt[:c]))
    for k in (1, 2, 3):
        out.append(("extend", pkt + G.rand_bytes(rng, k)))
    # length field perturbations (message length, set length)
    for off in (2, 18):
        for d in (-2, -1, 1, 2):
            v = (int.from_bytes(pkt[off:off + 2], "big") + d) & 0xffff
            out.append(("lenfield", pkt[:off] + W.u16(v) + pkt[off + 2:]))
    # prefix perturbation: set bytes in the body to 254 / 255
    for _ in range(6):
        if n > 21:
            i = rng.randrange(20, n)
            out.append(("prefix", pkt[:i] + bytes([rng.choice([254, 255, 0, 1])]) + pkt[i + 1:]))
    # bit flips
    for _ in range(8):
        i = rng.randrange(0, n)
        out.append(("bitflip", pkt[:i] + bytes([pkt[i] ^ (1 << rng.randrange(8))]) + pkt[i + 1:]))
    rng.shuffle(out)
    return out[:budget]


def gen_cases(rng, tier):
    cases = []
    nstates = 800 if tier == "quick" else 40000
    for _ in range(nstates):
        mode = rng.choice(MODES)
        kind = rng.choice(KINDS)
        ies = pick_template(rng, kind)
        dom = rng.choice([1, 2, 0xffffffff])
        tid = rng.choice([256, 257, 65535, 300])
        tpl = W.message(dom, 2, W.template_body(tid, ies), seq=rng.getrandbits(32), export_time=rng.getrandbits(32))
        setup = ["dec new " + mode + rng.choice(["", "", " udp"]), "dec pkt " + tpl.hex()]
        usable = [ie for ie in ies if ie.len != 0]
        nrec = rng.randint(1, 3)
        body = valid_data(rng, ies, nrec) if ies else b""
        good = W.message(dom, tid, body, seq=rng.getrandbits(32))
        ops = list(setup)
        ops.append("dec pkt " + good.hex())
        # (iii) mutations of the valid data message and of the template message
        for what, m in mutations(rng, good, 60):
            ops.append("dec pkt " + (m.hex() or "-"))
        for what, m in mutations(rng, tpl, 25):
            ops.append("dec pkt " + (m.hex() or "-"))
            ops.append("dec pkt " + good.hex())
        # (i) random bytes behind a valid-looking header, for this template
        for _ in range(20):
            rb = G.rand_bytes(rng, rng.choice([0, 1, 2, 3, 5, 8, 13, 40, 200]))
            ops.append("dec pkt " + W.message(dom, rng.choice([tid, tid, 2, 3, 0]), rb).hex())
        # padding shorter than the minimum record: must be ignored, never decoded
        for k in (1, 2, 3):
            ops.append("dec pkt " + W.message(dom, tid, body + b"\0" * k).hex())
        ops.append("dec keys")
        cases.append(Case(ops, "state:%s:%s" % (kind, mode), True, True))
    # (ii) pure random packets
    nr = 500 if tier == "quick" else 30000
    for _ in range(nr):
        ops = ["dec new " + rng.choice(MODES)]
        for _ in range(20):
            ops.append("dec pkt " + (G.rand_bytes(rng, rng.choice([0, 1, 15, 16, 19, 20, 21, 24, 28, 40, 100])).hex() or "-"))
        cases.append(Case(ops, "random-bytes", False, True))
    return cases


def signature(case, oi, verdict, agrees_with_model=False):
    v = verdict.split(" ")
    return "C03:%s:%s" % (case.label.split(":")[1] if ":" in case.label else case.label, " ".join(v[:2]))


def run(ctx):
    rng = random.Random(ctx.seed * 1000003 + 3)
    cases = gen_cases(rng, ctx.tier)
    res = run_dec(ctx, cases, "C03", signature, use_spec=False)
    res["evaluations"] = sum(len(c.ops) for c in cases)
    pk = set()
    for c in cases:
        for op in c.ops:
            if op.startswith("dec pkt ") and len(op) >= 8 + 40 and op[8:12] == "000a":
                pk.add(G.case_hash([op]))
    res["distinct_nontrivial"] = len(pk)
    res["notes"].append("%d template states / sessions; evaluations counts packets handed to decodePacket" % len(cases))
    return res
