"""C10 - UDP template lifetime under all timer schedules: correspondence generator and runner.

Implementation side: .bin/harness-timers (harness/cmd/harness-timers), the real pkg/collector UDP
collecting process with a harness-owned clock; timer firing, the callback's clock read and the
callback's completion are separate ops, so every placement of them relative to the packets can be
scheduled deterministically. Model side: the Lean executable driver_timers (Driver/MainTimers.lean)
running Ipfix.Timers.step; its `chk` lines evaluate Ipfix.C10.verdict (= StepOK, see
Props/C10.verdict_none_iff) on the implementation's observations.

The event model's steps are coarser than the source: a whole addTemplate is ONE step with the clock
standing still, a callback's conditional deletion is ONE step. With a harness clock that only moves
between steps, a change that breaks one of these assumptions (the expiry test taken out of the write
lock, expiryTime assigned after the timer is armed) cannot be exhibited by any input. The assumptions
are therefore tied to the source structurally: tools/timerfacts (go/ast) re-extracts the shape of
addTemplate / the timer callback / deleteTemplateWithConds into Generated/Timers.lean at import of this
module, and the `tie_*` theorems of Props/C10.lean are checked against it by `decide`.

The small Python simulation below is used ONLY to enumerate the events that are enabled in a state
(so that the exhaustive enumeration does not waste its depth on no-ops); it takes no part in any
verdict.
"""
import json
import os
import random
import shutil
import threading

import check
from check import Case
from gen import common as G
from gen import ipfix as W

DOMS = [1, 2]
IDS = [256, 257]
TIMERS_LEAN = os.path.join(check.LEAN, "IpfixModel", "Generated", "Timers.lean")


class SPEC:
    driver_target = "driver_timers"
    rule = ("engine tm (harness-timers / driver_timers): event sequences over {template, refresh (= template for a stored key), "
            "bad template, data} x 2 observation domains x 2 template ids, clock advances by {0, 1, TTL-1, TTL, TTL+1}, and for "
            "every timer the three separate scheduling events fire (timer unarmed, callback started and parked before its clock "
            "read), cbnow (callback reads the clock) and cbfin (callback takes the lock and finishes), placed anywhere. "
            "Quick: ALL sequences of enabled events of length 5 over the full alphabet (TTL 3 and TTL 1) and ALL of length 6 "
            "over the alphabet without data events (TTL 3) - every shorter sequence is a prefix of one of them and is compared "
            "op by op -, modulo renaming of domains / ids (the first domain and id used are 1 / 256), plus 4000 random "
            "sequences of length 7..60 (TTL in {1,2,3,5}, 10% events that are not enabled, uint32/uint16 extreme keys in some); "
            "thorough: lengths 6 / 7 and 60000 random sequences up to length 200. After every op the full observable state "
            "(clock, stored keys, armed timers with key and deadline, callbacks in flight with the time they read) is compared "
            "with the model and Ipfix.C10.verdict is evaluated on the implementation's observations. "
            "Non-trivial = a timer fires or is reset (refresh) in the sequence; distinct by hash of the ops.")
    assumptions = [
        "timer contract (trusted, exactly what Go documents for time.AfterFunc / Timer.Stop / Timer.Reset): AfterFunc(d,f) arms a "
        "timer with deadline now+d; when the deadline has passed the runtime, at some later moment, starts f in its own goroutine "
        "and from that moment the timer is unarmed; Stop() unarms an armed timer (f will not start) and does nothing to an f "
        "already started; Reset(d) (re)arms with deadline now+d whether or not the timer was armed, an f already started keeps running",
        "the callback does nothing observable between reading the clock and taking the collector's lock, so the harness hands the "
        "value fixed at `cbnow` over only at `cbfin` (tied to the source: tie_callback_is_one_conditional_delete)",
        "granularity of the event model - addTemplate is ONE step under the write lock, in which expiryTime is assigned before the timer "
        "is armed; the callback's only effect on the store is ONE deleteTemplateWithConds call whose condition tests the stored "
        "template's expiryTime under the write lock, before Stop() and delete(); nothing else reads or writes expiryTime - is not "
        "observable with a clock that moves only between steps; it is tied to the source structurally (Generated/Timers.lean, "
        "theorems tie_* of Props/C10.lean) and a change of that structure is reported as a broken obligation, not as a failing input",
        "clock and deadlines are whole seconds; a configured TTL of 0 selects the default lifetime (Model effectiveTTL, tied to the regenerated constant); 6 % of the random sequences run on such a collector",
        "strict decoding mode; packets reach decodePacket directly (no socket); one packet / one callback step at a time "
        "(the collector's mutex serialises them in the real process; lock-freedom of races is C12/C14's subject)",
    ]
    trusted = [
        "harness/cmd/harness-timers: harness-owned implementation of the collector's clock/timer interfaces (through "
        "harness/overlay/collector/verif_hooks.go: VerifClock, VerifTimer, VerifNewCollector, VerifDecodePacket, VerifTemplateKeys)",
        "real time.Timer is trusted to meet the timer contract stated in the assumptions (the proof is about the model under that contract)",
        "tools/timerfacts (go/ast translator, no type checker: paths through addTemplate, the calls of the function literal handed to "
        "cp.clock.AfterFunc and its deletion condition, statement order and lock state in deleteTemplateWithConds, every access to "
        "`.expiryTime` in pkg/collector -> Generated/Timers.lean)",
    ]


# ----------------------------------------------------------------------------------------
# structural facts: regenerate Generated/Timers.lean at import time (check.py imports this module before it
# builds the proofs; check.regen_facts() only knows tools/gofacts)

def regen_timerfacts():
    src = os.path.join(check.ROOT, "tools", "timerfacts")
    out = os.path.join(check.BIN, "timerfacts")
    os.makedirs(check.BIN, exist_ok=True)
    with check.Lock("timerfacts"):
        if check.newer_than(src, out):
            r = check.run(["go", "build", "-o", out, "."], cwd=src, env=check.GOENV)
            if r.returncode != 0:
                if os.path.exists(TIMERS_LEAN):    # the theorems must not be checked against stale facts
                    os.remove(TIMERS_LEAN)
                return "timerfacts does not build: " + r.stderr[-400:]
        r = check.run([out, check.REPO, os.path.dirname(TIMERS_LEAN)])   # honours VERIF_MUTANT_OVERLAY itself; write-if-changed
        if r.returncode != 0:
            if os.path.exists(TIMERS_LEAN):
                os.remove(TIMERS_LEAN)
            return "timerfacts cannot translate the current tree: " + r.stderr.strip()[-400:]
    return ""


FACTS_ERROR = regen_timerfacts()


# ----------------------------------------------------------------------------------------
# harness


def build_harness():
    with check.Lock("harness"):
        hd = os.path.join(check.ROOT, "harness")
        os.makedirs(check.BIN, exist_ok=True)
        shutil.copyfile(os.path.join(check.REPO, "go.sum"), os.path.join(hd, "go.sum"))
        ov = check.write_overlay()          # honours VERIF_MUTANT_OVERLAY (development aid)
        # build from a private copy; if a mutant mapping is active, put the shared overlay.json back at
        # once so that concurrent builds of other harnesses never see it
        wd = os.path.join(check.WORK, "C10")
        os.makedirs(wd, exist_ok=True)
        private = os.path.join(wd, "overlay.json")
        shutil.copyfile(ov, private)
        mut = os.environ.pop("VERIF_MUTANT_OVERLAY", None)
        if mut is not None:
            try:
                check.write_overlay()
            finally:
                os.environ["VERIF_MUTANT_OVERLAY"] = mut
        out = os.path.join(check.BIN, "harness-timers")
        r = check.run(["go", "build", "-tags", "verif", "-overlay", private, "-o", out, "./cmd/harness-timers"],
                      cwd=hd, env=check.GOENV, timeout=1800)
        return r.returncode == 0, r.stderr, out


# ----------------------------------------------------------------------------------------
# enumeration aid: which events are enabled (NOT part of any verdict)


class Sim:
    __slots__ = ("ttl", "now", "tpls", "armed", "pend", "no", "nc")

    def __init__(self, ttl):
        self.ttl, self.now, self.tpls, self.armed, self.pend, self.no, self.nc = ttl, 0, {}, {}, {}, 0, 0

    def copy(self):
        s = Sim(self.ttl)
        s.now, s.tpls, s.armed, s.pend, s.no, s.nc = self.now, dict(self.tpls), dict(self.armed), dict(self.pend), self.no, self.nc
        return s

    def due(self):
        return [o for o, (k, dl) in self.armed.items() if dl <= self.now]

    def unread(self):
        return [c for c, (o, k, r) in self.pend.items() if r is None]

    def read(self):
        return [c for c, (o, k, r) in self.pend.items() if r is not None]

    def step(self, e):
        """returns 'fire' / 'reset' when a timer fires / is reset (non-triviality), else None"""
        t = e[0]
        if t == "tpl":
            k = (e[1], e[2])
            if k in self.tpls:
                o = self.tpls[k][0]
                self.tpls[k] = (o, self.now + self.ttl)
                self.armed[o] = (k, self.now + self.ttl)
                return "reset"
            self.tpls[k] = (self.no, self.now + self.ttl)
            self.armed[self.no] = (k, self.now + self.ttl)
            self.no += 1
        elif t == "bad":
            k = (e[1], e[2])
            if k in self.tpls:
                self.armed.pop(self.tpls.pop(k)[0], None)
        elif t == "adv":
            self.now += e[1]
        elif t == "fire":
            if e[1] in self.armed and self.armed[e[1]][1] <= self.now:
                k, _ = self.armed.pop(e[1])
                self.pend[self.nc] = (e[1], k, None)
                self.nc += 1
                return "fire"
        elif t == "cbnow":
            if e[1] in self.pend and self.pend[e[1]][2] is None:
                o, k, _ = self.pend[e[1]]
                self.pend[e[1]] = (o, k, self.now)
        elif t == "cbfin":
            if e[1] in self.pend and self.pend[e[1]][2] is not None:
                o, k, r = self.pend.pop(e[1])
                if k in self.tpls and self.tpls[k][1] <= r:
                    self.armed.pop(self.tpls.pop(k)[0], None)
        return None


_OPS = {}


def op_of(e):
    s = _OPS.get(e)
    if s is None:
        s = _OPS[e] = "tm " + " ".join(str(x) for x in e)
    return s


def exhaustive(ttl, depth, with_data, label):
    """all sequences of exactly `depth` enabled events, canonical up to renaming of domains / ids"""
    return _exhaustive_from(Sim(ttl), depth, with_data, label, 0, 0, [], False)


def _default_ttl():
    import re
    txt = open(os.path.join(check.LEAN, "IpfixModel", "Generated", "Consts.lean")).read()
    return int(re.search(r"def cTemplateTTL : Nat := (\d+)", txt).group(1))


DEFAULT_TTL = _default_ttl()


def random_case(rng, maxlen):
    ttl = rng.choice([1, 2, 3, 3, 5])
    if rng.random() < 0.05:
        # lifetimes of weeks: the configured number of seconds must not lose bits on its way to a time.Duration
        # (4294968 s is the first value whose count of milliseconds no longer fits 32 bits)
        ttl = rng.choice([86400, 4294967, 4294968, 10 ** 7])
    cfg = ttl
    if rng.random() < 0.06:
        # the collector is configured WITHOUT a lifetime: it must use the protocol's default (entities.TemplateTTL = 1800 s)
        cfg, ttl = 0, DEFAULT_TTL
    extreme = rng.random() < 0.1
    doms = [0, 4294967295] if extreme else DOMS
    ids = [256, 65535] if extreme else IDS
    advs = [0, 1, max(ttl - 1, 0), ttl, ttl + 1, 2 * ttl]
    if cfg == 0:
        advs += [600, 599, 601, 1200]      # ... in particular not the 600 s refresh interval
    s = Sim(ttl)
    ops = ["tm new %d" % cfg]
    nt = False
    n = rng.randint(7, maxlen)
    for _ in range(n):
        if rng.random() < 0.10:
            # any scheduling event, enabled or not
            e = (rng.choice(["fire", "cbnow", "cbfin"]), rng.randint(0, max(s.no, s.nc) + 1))
        else:
            cands = [("pkt",)] * 5 + [("adv",)] * 3
            cands += [("fire", o) for o in s.due()] * 3
            cands += [("cbnow", c) for c in s.unread()] * 2
            cands += [("cbfin", c) for c in s.read()] * 2
            e = rng.choice(cands)
            if e[0] == "pkt":
                e = (rng.choice(["tpl", "tpl", "tpl", "bad", "data", "data"]), rng.choice(doms), rng.choice(ids))
            elif e[0] == "adv":
                e = ("adv", rng.choice(advs))
        if s.step(e) is not None:
            nt = True
        ops.append(op_of(e))
    return Case(ops, "random-extreme-keys" if extreme else "random", nt, True)


def gen_chunks(rng, tier, chunk):
    """yields lists of cases (bounded memory)"""
    full, nodata = (5, 6) if tier == "quick" else (6, 7)
    plan = [(3, full, True, "exh%d-full-ttl3" % full), (1, full, True, "exh%d-full-ttl1" % full),
            (3, nodata, False, "exh%d-nodata-ttl3" % nodata)]
    for ttl, depth, with_data, label in plan:
        # split the enumeration by its first events so that no more than a few 100k cases are alive
        cases = exhaustive_split(ttl, depth, with_data, label)
        buf = []
        for part in cases:
            buf.extend(part)
            while len(buf) >= chunk:
                yield buf[:chunk]
                buf = buf[chunk:]
        if buf:
            yield buf
    nrand, maxlen = (4000, 60) if tier == "quick" else (60000, 200)
    buf = []
    for _ in range(nrand):
        buf.append(random_case(rng, maxlen))
        if len(buf) >= chunk // 4:
            yield buf
            buf = []
    if buf:
        yield buf


def exhaustive_split(ttl, depth, with_data, label):
    """the same set as exhaustive(), produced lazily: one part per first two events"""
    if depth <= 4:
        yield exhaustive(ttl, depth, with_data, label)
        return
    heads = exhaustive(ttl, 2, with_data, label)
    for h in heads:
        evs = [tuple(int(x) if x.isdigit() else x for x in o.split(" ")[1:]) for o in h.ops[1:]]
        s = Sim(ttl)
        nt = False
        nd = ni = 0
        for e in evs:
            if s.step(e) is not None:
                nt = True
            if e[0] in ("tpl", "bad", "data"):
                nd, ni = max(nd, DOMS.index(e[1]) + 1), max(ni, IDS.index(e[2]) + 1)
        yield _exhaustive_from(s, depth - 2, with_data, label, nd, ni, h.ops[1:], nt)


def _exhaustive_from(s0, depth, with_data, label, nd0, ni0, ops0, nt0):
    ttl = s0.ttl
    advs = sorted({0, 1, max(ttl - 1, 0), ttl, ttl + 1})
    kinds = ("tpl", "bad", "data") if with_data else ("tpl", "bad")
    new = "tm new %d" % ttl
    out = []

    def rec(s, d, nd, ni, ops, nt):
        if d == 0:
            out.append(Case([new] + ops, label, nt, True))
            return
        for di in range(min(nd + 1, 2)):
            for ii in range(min(ni + 1, 2)):
                for kd in kinds:
                    e = (kd, DOMS[di], IDS[ii])
                    s2 = s.copy()
                    r = s2.step(e)
                    rec(s2, d - 1, max(nd, di + 1), max(ni, ii + 1), ops + [op_of(e)], nt or r is not None)
        for a in advs:
            s2 = s.copy()
            s2.now += a
            rec(s2, d - 1, nd, ni, ops + [op_of(("adv", a))], nt)
        for o in s.due():
            s2 = s.copy()
            s2.step(("fire", o))
            rec(s2, d - 1, nd, ni, ops + [op_of(("fire", o))], True)
        for c in s.unread():
            s2 = s.copy()
            s2.step(("cbnow", c))
            rec(s2, d - 1, nd, ni, ops + [op_of(("cbnow", c))], nt)
        for c in s.read():
            s2 = s.copy()
            s2.step(("cbfin", c))
            rec(s2, d - 1, nd, ni, ops + [op_of(("cbfin", c))], nt)

    rec(s0, depth, nd0, ni0, list(ops0), nt0)
    return out


# ----------------------------------------------------------------------------------------
# runner


def why_code(v):
    p = (v or "missing").split(" ")
    return p[1] if len(p) > 1 and p[0] == "fails" else p[0]


def chk_lines(ops, impl):
    return ["chk %s | %s" % (o, i) for o, i in zip(ops, impl)]


def case_fails(harness, driver, ops, code):
    impl, _ = check.run_ops(harness, ["# case"] + ops, timeout=120)
    impl = impl[1:]
    if len(impl) < len(ops):
        impl = impl + ["missing"] * (len(ops) - len(impl))
    verd, _ = check.run_ops(driver, ["# case"] + chk_lines(ops, impl), timeout=120)
    return any(v not in ("holds", "na", "skip") and why_code(v) == code for v in verd[1:])


def packets_agree(harness):
    """the harness builds its three packets itself: they must be the bytes gen/ipfix.py produces"""
    bt = G.by_type()
    u16, u32 = bt[2][0], bt[3][0]
    unknown = G.IE(0, 29999, 0, 4, "")
    want = [W.message(1, 2, W.template_body(256, [u16, u32])).hex(),
            W.message(1, 2, W.template_body(256, [u16, unknown])).hex(),
            W.message(1, 256, bytes([0x11, 0x22, 0x33, 0x44, 0x55, 0x66])).hex()]
    got, _ = check.run_ops(harness, ["tm hex tpl 1 256", "tm hex bad 1 256", "tm hex data 1 256"], timeout=60)
    return got == want, want, got


def run(ctx):
    rng = random.Random(ctx.seed * 1000003 + 10)
    shards = ctx.cores if ctx.tier == "thorough" else min(8, ctx.cores)
    chunk = 120000
    dist = G.Counter()
    seen = set()
    disagreements, failures = [], []
    fail_sigs = {}
    samples = []
    sampled = set()
    n_cases = n_ops = 0
    exhaustive_counts = {}
    notes = []

    okp, want, got = packets_agree(ctx.harness)
    if not okp:
        disagreements.append({"case": -1, "op_index": 0, "ops": ["tm hex tpl 1 256", "tm hex bad 1 256", "tm hex data 1 256"],
                              "impl": " ".join(got)[:400], "model": " ".join(want)[:400], "label": "packet-bytes",
                              "explained_by_predicate_failure": False})

    if FACTS_ERROR:
        # Generated/Timers.lean has been removed, so Props/C10 does not build (reported as broken by check.py);
        # the reason is recorded here as well
        disagreements.append({"case": -1, "op_index": 0, "ops": [], "impl": FACTS_ERROR[:400], "model": "", "label": "timerfacts",
                              "explained_by_predicate_failure": False})

    for cases in gen_chunks(rng, ctx.tier, chunk):
        impl = check.exec_cases(ctx.harness, cases, shards=shards, timeout=3600)
        res = {}

        def run_model():
            res["model"] = check.exec_cases(ctx.driver, cases, shards=shards, timeout=3600)

        def run_chk():
            cc = [Case(chk_lines(c.ops, impl[ci])) for ci, c in enumerate(cases)]
            res["verd"] = check.exec_cases(ctx.driver, cc, shards=shards, timeout=3600)

        ths = [threading.Thread(target=run_model), threading.Thread(target=run_chk)]
        for t in ths:
            t.start()
        for t in ths:
            t.join()
        model, verd = res["model"], res["verd"]
        for ci, c in enumerate(cases):
            n_cases += 1
            n_ops += len(c.ops)
            dist.add(c.label)
            if c.label.startswith("exh"):
                exhaustive_counts[c.label] = exhaustive_counts.get(c.label, 0) + 1
            if c.nontrivial:
                seen.add(G.case_hash(c.ops))
            im, mo, ve = impl[ci], model[ci], verd[ci]
            bad = None
            if ve != ["holds"] * len(ve):
                for oi, v in enumerate(ve):
                    if v != "holds":
                        bad = (oi, v)
                        break
            if im != mo:
                for oi in range(len(c.ops)):
                    if im[oi] != mo[oi]:
                        if len(disagreements) < 50:
                            disagreements.append({"case": n_cases - 1, "op_index": oi, "ops": c.ops[:oi + 1], "impl": (im[oi] or "")[:400],
                                                  "model": (mo[oi] or "")[:400], "label": c.label,
                                                  "explained_by_predicate_failure": bad is not None})
                        dist.add("disagreement:" + c.ops[oi].split(" ")[1])
                        break
            if bad is not None:
                oi, v = bad
                sig = "C10:" + why_code(v)
                dist.add("predicate-failure:" + why_code(v))
                f = fail_sigs.get(sig)
                # keep the shortest failing prefix per signature
                if f is None or oi + 1 < len(f["ops"]):
                    fail_sigs[sig] = {"signature": sig, "ops": c.ops[:oi + 1], "impl": (im[oi] or "")[:400], "model": (mo[oi] or "")[:400],
                                      "predicate": {"name": "Ipfix.C10.verdict (StepOK)", "value": v}, "label": c.label,
                                      "note": "first failing operation: #%d %s" % (oi, c.ops[oi])}
            if c.label.startswith("random") or n_cases % 16 == 0:
                # op / outcome histogram: all random cases, every 16th exhaustive case
                for oi, o in enumerate(c.ops):
                    if oi:
                        dist.add("op:" + o.split(" ")[1] + ":" + (im[oi] or "missing").split(" ")[0].split(":")[0])
            if c.label not in sampled and c.nontrivial and any(o.startswith("tm cbfin") for o in c.ops):
                # one sample per part: the first sequence in which a timer fired and its callback ran to the end
                sampled.add(c.label)
                samples.append({"label": c.label, "n_ops": len(c.ops), "ops": c.ops[:12], "impl": [(x or "")[:160] for x in im[:12]]})
        del impl, model, verd

    # minimise one failing input per signature (ops[0] = `tm new <ttl>` is kept)
    for sig, f in sorted(fail_sigs.items()):
        ops = f["ops"]
        code = sig[4:]
        try:
            tail = check.ddmin(ops[1:], lambda cand: case_fails(ctx.harness, ctx.driver, [ops[0]] + cand, code))
            if case_fails(ctx.harness, ctx.driver, [ops[0]] + tail, code) and len(tail) + 1 < len(ops):
                f["ops"] = [ops[0]] + tail
                f["note"] += " (minimised to %d ops)" % len(f["ops"])
            io, _ = check.run_ops(ctx.harness, f["ops"], timeout=120)
            mo, _ = check.run_ops(ctx.driver, f["ops"], timeout=120)
            f["impl"], f["model"] = io[-1][:400] if io else "", mo[-1][:400] if mo else ""
        except Exception as e:  # minimisation is best effort
            f["note"] += " (not minimised: %s)" % e
        failures.append(f)

    notes.append("exhaustive parts (sequences of exactly that many enabled events, canonical up to renaming of domains/ids; every "
                 "shorter sequence is a prefix): " + ", ".join("%s=%d" % kv for kv in sorted(exhaustive_counts.items())))
    notes.append("%d cases, %d operations; every operation's full observable state compared with the model and checked by Ipfix.C10.verdict"
                 % (n_cases, n_ops))
    notes.append("packet bytes of harness-timers equal gen/ipfix.py's: %s" % okp)
    notes.append("Generated/Timers.lean regenerated by tools/timerfacts at import of gen/c10.py" + (" FAILED: " + FACTS_ERROR if FACTS_ERROR else "")
                 + "; the tie_* theorems of Props/C10.lean pin the event model's atomic steps to the source")
    if os.environ.get("VERIF_MUTANT_OVERLAY"):
        notes.append("VERIF_MUTANT_OVERLAY in effect: " + ",".join(sorted(json.loads(os.environ["VERIF_MUTANT_OVERLAY"]))))
    return {"evaluations": n_cases, "distinct_nontrivial": len(seen), "samples": samples, "distribution": dict(dist),
            "disagreements": disagreements, "predicate_failures": failures, "exhaustive": True, "notes": notes}
